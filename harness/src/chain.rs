//! Chains of evaluations over an edited project, with twins and offline checkers.
use crate::acc::*;
use crate::driver::*;
use crate::model::*;
use crate::oracle::*;
use pypipegraph2::JobKind;
use std::cell::RefCell;
use std::collections::{BTreeMap, BTreeSet, HashMap};
use std::rc::Rc;

#[derive(Clone, Copy, PartialEq, Eq, Debug)]
pub enum Family {
    Random,
    /// ephemeral chains with sibling outputs and a late invalidation through an Always job
    EphChain,
    /// validated ephemeral re-executed while consumers are absent / failed / aborted
    ValidatedEph,
    /// failures of jobs that already have history, then more evaluations
    FailHist,
    /// skipped output whose ephemeral upstream fails later while dependants are decided
    LateFail,
    /// abort with offered-but-unstarted jobs
    AbortOffered,
    /// multi-output renames + absence + interruption
    Rename,
    /// ephemeral chains whose final consumers have a second, failing upstream: the chain is re-executed
    /// (changed outputs) while the consumer is upstream-failed, then evaluated again
    EphFail,
    /// random projects whose edits include a job keeping its id but changing between Output and Ephemeral
    KindFlip,
    /// a multi-output job whose parts change independently, with consumers that each read other parts
    /// (production names: a consumer is only affected by the parts it reads)
    MultiPart,
}
impl Family {
    pub fn parse(s: &str) -> Family {
        match s {
            "random" => Family::Random,
            "ephchain" => Family::EphChain,
            "validatedeph" => Family::ValidatedEph,
            "failhist" => Family::FailHist,
            "latefail" => Family::LateFail,
            "abortoffered" => Family::AbortOffered,
            "rename" => Family::Rename,
            "ephfail" => Family::EphFail,
            "kindflip" => Family::KindFlip,
            "multipart" => Family::MultiPart,
            _ => panic!("unknown family {}", s),
        }
    }
    pub fn name(self) -> &'static str {
        match self {
            Family::Random => "random",
            Family::EphChain => "ephchain",
            Family::ValidatedEph => "validatedeph",
            Family::FailHist => "failhist",
            Family::LateFail => "latefail",
            Family::AbortOffered => "abortoffered",
            Family::Rename => "rename",
            Family::EphFail => "ephfail",
            Family::KindFlip => "kindflip",
            Family::MultiPart => "multipart",
        }
    }
}

#[derive(Clone, Debug)]
pub struct ChainCfg {
    pub conv: Conv,
    pub family: Family,
    pub maxn: usize,
    pub twins: bool,
    pub misuse: Misuse,
    pub inject: bool,
    pub next_job_twin: bool,
    pub verbose: bool,
    /// record structured call traces of the primary evaluations (PyO3 boundary replay)
    pub export: bool,
    /// chains of 8-20 evaluations instead of 2-7
    pub long: bool,
    /// with `inject`: keep the plan's failures and abort (default: injection runs are otherwise failure-free)
    pub inject_with_faults: bool,
}
impl ChainCfg {
    pub fn new(conv: Conv, family: Family, maxn: usize) -> Self {
        ChainCfg { conv, family, maxn, twins: true, misuse: Misuse::Off, inject: false, next_job_twin: false, verbose: false, export: false, long: false, inject_with_faults: false }
    }
    pub fn replay_args(&self, seed: u64) -> Vec<String> {
        let mut v = vec![
            "one".to_string(),
            "chain".to_string(),
            self.conv.name().to_string(),
            self.family.name().to_string(),
            self.maxn.to_string(),
            seed.to_string(),
        ];
        let mut flags = vec![];
        if !self.twins {
            flags.push("notwins");
        }
        if self.inject {
            flags.push("inject");
        }
        if self.next_job_twin {
            flags.push("nextjob");
        }
        if self.long {
            flags.push("long");
        }
        if self.inject_with_faults {
            flags.push("injectf");
        }
        match self.misuse {
            Misuse::Off => {}
            Misuse::Every => flags.push("misuse-every"),
            Misuse::Random(_) => flags.push("misuse"),
        }
        v.push(if flags.is_empty() { "-".to_string() } else { flags.join(",") });
        v
    }
    pub fn apply_flags(&mut self, flags: &str) {
        for f in flags.split(',') {
            match f {
                "notwins" => self.twins = false,
                "inject" => self.inject = true,
                "nextjob" => self.next_job_twin = true,
                "long" => self.long = true,
                "injectf" => {
                    self.inject = true;
                    self.inject_with_faults = true
                }
                "misuse" => self.misuse = Misuse::Random(0.3),
                "misuse-every" => self.misuse = Misuse::Every,
                "-" | "" => {}
                _ => panic!("unknown flag {}", f),
            }
        }
    }
}

pub struct Project {
    pub g: Graph,
    pub parked: Vec<(Node, Vec<(String, String)>)>, // removed node + (consumer base, name) links it served
    pub history: History,
    pub world: Rc<RefCell<World>>,
    pub next_rank: u32,
    pub stamp: u64,
    pub conv: Conv,
    /// jobs whose last attempt failed or was cut short by an abort while running
    pub tainted: BTreeSet<String>,
    /// what the driver saw each job consume / produce at its last success (ground truth)
    pub shadow: Shadow,
    /// kind under which each job id last succeeded (coverage of kind changes under the same id)
    pub kind_at_record: HashMap<String, JobKind>,
}

fn rand_kind(rng: &mut Rng) -> JobKind {
    match rng.below(10) {
        0..=2 => JobKind::Always,
        3..=6 => JobKind::Output,
        _ => JobKind::Ephemeral,
    }
}

impl Project {
    pub fn empty(conv: Conv, edge_order_seed: u64) -> Project {
        let mut p = Project {
            g: Graph::default(),
            parked: vec![],
            history: HashMap::new(),
            world: Rc::new(RefCell::new(World::default())),
            next_rank: 0,
            stamp: 0,
            conv,
            tainted: BTreeSet::new(),
            shadow: Shadow::default(),
            kind_at_record: HashMap::new(),
        };
        p.g.edge_order_seed = edge_order_seed;
        p
    }
    pub fn new(rng: &mut Rng, cfg: &ChainCfg) -> Project {
        let mut p = Project::empty(cfg.conv, rng.next());
        match cfg.family {
            Family::EphChain => p.motif_ephchain(rng, false),
            Family::EphFail => p.motif_ephchain(rng, true),
            Family::ValidatedEph => p.motif_validated_eph(rng),
            Family::LateFail => p.motif_latefail(rng),
            Family::MultiPart => p.motif_multipart(rng),
            _ => {}
        }
        let extra = match cfg.family {
            Family::Random | Family::FailHist | Family::AbortOffered | Family::Rename | Family::KindFlip => 1 + rng.below(cfg.maxn),
            Family::EphFail => rng.below(3),
            _ => rng.below(4),
        };
        let dens = [0.2, 0.35, 0.5, 0.7][rng.below(4)];
        for _ in 0..extra {
            p.add_node(rng, dens, None);
        }
        p
    }
    /// add a node with explicit kind and consumed bases (each consumed base: all its outputs or a subset)
    pub fn add_fixed(&mut self, rng: &mut Rng, kind: JobKind, consumes: &[&str], dom: u64) -> String {
        let rank = self.next_rank;
        self.next_rank += 1;
        let base = format!("J{}", rank);
        let mut outs = vec![base.clone()];
        if self.conv.multi() && rng.chance(0.35) {
            outs.push(format!("{}b", base));
        }
        let mut inputs = BTreeSet::new();
        for c in consumes {
            let u = self.g.nodes.iter().find(|n| n.base == *c).unwrap();
            if self.conv.multi() {
                let mut any = false;
                for o in &u.outs {
                    if rng.chance(0.6) {
                        inputs.insert(o.clone());
                        any = true;
                    }
                }
                if !any {
                    inputs.insert(rng.pick(&u.outs).clone());
                }
            } else {
                for o in &u.outs {
                    inputs.insert(o.clone());
                }
            }
        }
        self.g.nodes.push(Node { id: String::new(), base: base.clone(), outs, inputs, kind, ver: 0, dom, rank });
        self.g.rebuild();
        base
    }
    fn rand_dom(rng: &mut Rng) -> u64 {
        [1, 2, 3, 1000][rng.below(4)]
    }
    /// E1 -> E2 -> ... -> Ek -> O ; E_i -> P_i (sibling outputs) ; A (Always) -> O or -> E_k
    fn motif_ephchain(&mut self, rng: &mut Rng, with_failing_sibling: bool) {
        let depth = 2 + rng.below(3);
        let a = self.add_fixed(rng, JobKind::Always, &[], 1000);
        let head_from_always = rng.chance(0.3);
        let mut chain: Vec<String> = vec![];
        for i in 0..depth {
            let mut cons: Vec<&str> = vec![];
            if i > 0 {
                cons.push(chain[i - 1].as_str());
            } else if head_from_always {
                cons.push(a.as_str());
            }
            let d = Self::rand_dom(rng);
            let e = self.add_fixed(rng, JobKind::Ephemeral, &cons, d.max(2));
            chain.push(e);
        }
        // sibling outputs
        for c in chain.clone().iter() {
            if rng.chance(0.6) {
                let d = Self::rand_dom(rng);
                self.add_fixed(rng, JobKind::Output, &[c.as_str()], d);
            }
        }
        // the late-invalidated consumer at the end of the chain
        let a2 = if rng.chance(0.5) { a.clone() } else { self.add_fixed(rng, JobKind::Always, &[], 1000) };
        let last = chain.last().unwrap().clone();
        let kind = if rng.chance(0.8) { JobKind::Output } else { JobKind::Ephemeral };
        let f = if with_failing_sibling { Some(self.add_fixed(rng, JobKind::Output, &[], 1000)) } else { None };
        let mut oc = vec![last.as_str(), a2.as_str()];
        if let Some(f) = &f {
            oc.push(f.as_str());
        }
        let o = self.add_fixed(rng, kind, &oc, 1000);
        if kind == JobKind::Ephemeral {
            self.add_fixed(rng, JobKind::Output, &[o.as_str()], 1000);
        }
        // sometimes a middle consumer with its own always input
        if depth >= 3 && rng.chance(0.5) {
            let a3 = self.add_fixed(rng, JobKind::Always, &[], 1000);
            let mid = chain[1].clone();
            self.add_fixed(rng, JobKind::Output, &[mid.as_str(), a3.as_str()], 1000);
        }
    }
    /// A1, A2 (Always) -> U (Output or Ephemeral with 2-3 outputs, small domain) -> consumers that each read one or
    /// two of U's parts (and sometimes a second input)
    fn motif_multipart(&mut self, rng: &mut Rng) {
        let a1 = self.add_fixed(rng, JobKind::Always, &[], 1000);
        let a2 = self.add_fixed(rng, JobKind::Always, &[], 1000);
        let rank = self.next_rank;
        self.next_rank += 1;
        let base = format!("J{}", rank);
        let mut outs = vec![base.clone(), format!("{}b", base)];
        if rng.chance(0.5) {
            outs.push(format!("{}c", base));
        }
        let kind = if rng.chance(0.6) { JobKind::Output } else { JobKind::Ephemeral };
        let mut inputs = BTreeSet::new();
        inputs.insert(self.g.nodes.iter().find(|n| n.base == a1).unwrap().outs[0].clone());
        inputs.insert(self.g.nodes.iter().find(|n| n.base == a2).unwrap().outs[0].clone());
        self.g.nodes.push(Node { id: String::new(), base: base.clone(), outs: outs.clone(), inputs, kind, ver: 0, dom: *rng.pick(&[2u64, 3, 3]), rank });
        self.g.rebuild();
        let k = 2 + rng.below(3);
        for _ in 0..k {
            let rank = self.next_rank;
            self.next_rank += 1;
            let cb = format!("J{}", rank);
            let mut inputs = BTreeSet::new();
            inputs.insert(rng.pick(&outs).clone());
            if rng.chance(0.3) {
                inputs.insert(rng.pick(&outs).clone());
            }
            if rng.chance(0.3) {
                inputs.insert(self.g.nodes.iter().find(|n| n.base == a1).unwrap().outs[0].clone());
            }
            let ck = if rng.chance(0.8) { JobKind::Output } else { JobKind::Ephemeral };
            self.g.nodes.push(Node { id: String::new(), base: cb.clone(), outs: vec![cb.clone()], inputs, kind: ck, ver: 0, dom: 1000, rank });
            self.g.rebuild();
            if ck == JobKind::Ephemeral {
                self.add_fixed(rng, JobKind::Output, &[cb.as_str()], 1000);
            }
        }
    }
    /// I -> E -> {C1..Ck} consumers of mixed kinds; E's output domain small or large
    fn motif_validated_eph(&mut self, rng: &mut Rng) {
        let ik = if rng.chance(0.5) { JobKind::Always } else { JobKind::Output };
        let i = self.add_fixed(rng, ik, &[], 1000);
        let d = Self::rand_dom(rng);
        let e = self.add_fixed(rng, JobKind::Ephemeral, &[i.as_str()], d);
        let k = 2 + rng.below(3);
        for _ in 0..k {
            let a = if rng.chance(0.4) { Some(self.add_fixed(rng, JobKind::Always, &[], 1000)) } else { None };
            let mut cons = vec![e.as_str()];
            if let Some(a) = &a {
                cons.push(a.as_str());
            }
            let kind = if rng.chance(0.75) { JobKind::Output } else { JobKind::Ephemeral };
            let d = Self::rand_dom(rng);
            let c = self.add_fixed(rng, kind, &cons, d);
            if kind == JobKind::Ephemeral {
                self.add_fixed(rng, JobKind::Output, &[c.as_str()], 1000);
            }
        }
    }
    /// A validated Output O is skipped early (its other upstream R is done) while its validated
    /// Ephemeral upstream E is still undecided; E is needed by Z and may fail late. Below O: a mix of
    /// Outputs / Ephemerals / Always jobs, some with a second, slow input K.
    fn motif_latefail(&mut self, rng: &mut Rng) {
        let pk = if rng.chance(0.5) { JobKind::Output } else { JobKind::Always };
        let pre = if rng.chance(0.6) { Some(self.add_fixed(rng, pk, &[], 1000)) } else { None };
        let cons: Vec<&str> = pre.iter().map(|x| x.as_str()).collect();
        let e = self.add_fixed(rng, JobKind::Ephemeral, &cons, 1000);
        let r = if rng.chance(0.7) { Some(self.add_fixed(rng, JobKind::Output, &[], 1000)) } else { None };
        let mut oc = vec![e.as_str()];
        if let Some(r) = &r {
            oc.push(r.as_str());
        }
        let o = self.add_fixed(rng, JobKind::Output, &oc, 1000);
        // the consumer that makes E run: an Always job, or an Output (whose file will get deleted)
        let zk = if rng.chance(0.5) { JobKind::Always } else { JobKind::Output };
        self.add_fixed(rng, zk, &[e.as_str()], 1000);
        let k = 1 + rng.below(3);
        for _ in 0..k {
            let kind = rand_kind(rng);
            let sk = if rng.chance(0.5) { JobKind::Output } else { JobKind::Always };
            let slow = if rng.chance(0.5) { Some(self.add_fixed(rng, sk, &[], 1000)) } else { None };
            let mut xc = vec![o.as_str()];
            if let Some(sl) = &slow {
                xc.push(sl.as_str());
            }
            let x = self.add_fixed(rng, kind, &xc, 1000);
            if kind == JobKind::Ephemeral {
                // sometimes a second Ephemeral in between: a skipped Ephemeral whose only consumer is an Ephemeral
                let x2 = if rng.chance(0.4) { self.add_fixed(rng, JobKind::Ephemeral, &[x.as_str()], 1000) } else { x.clone() };
                let y = self.add_fixed(rng, JobKind::Output, &[x2.as_str()], 1000);
                if rng.chance(0.4) {
                    self.add_fixed(rng, JobKind::Output, &[y.as_str()], 1000);
                }
            } else if kind == JobKind::Output && rng.chance(0.5) {
                let kk = rand_kind(rng);
                let y = self.add_fixed(rng, kk, &[x.as_str()], 1000);
                if kk == JobKind::Ephemeral {
                    self.add_fixed(rng, JobKind::Output, &[y.as_str()], 1000);
                }
            }
        }
    }
    pub fn add_node(&mut self, rng: &mut Rng, dens: f64, kind: Option<JobKind>) {
        let rank = self.next_rank;
        self.next_rank += 1;
        let base = format!("J{}", rank);
        let mut outs = vec![base.clone()];
        if self.conv.multi() && rng.chance(0.35) {
            outs.push(format!("{}b", base));
            if rng.chance(0.3) {
                outs.push(format!("{}c", base));
            }
        }
        let mut inputs = BTreeSet::new();
        for u in &self.g.nodes {
            if rng.chance(dens) {
                if self.conv.multi() {
                    // consume a non-empty subset
                    let mut any = false;
                    for o in &u.outs {
                        if rng.chance(0.6) {
                            inputs.insert(o.clone());
                            any = true;
                        }
                    }
                    if !any {
                        inputs.insert(rng.pick(&u.outs).clone());
                    }
                } else {
                    for o in &u.outs {
                        inputs.insert(o.clone());
                    }
                }
            }
        }
        let node = Node {
            id: String::new(),
            base,
            outs,
            inputs,
            kind: kind.unwrap_or_else(|| rand_kind(rng)),
            ver: 0,
            dom: Self::rand_dom(rng),
            rank,
        };
        self.g.nodes.push(node);
        if rng.chance(0.5) && self.g.nodes.len() > 1 {
            let a = rng.below(self.g.nodes.len());
            let b = rng.below(self.g.nodes.len());
            self.g.nodes.swap(a, b);
        }
        self.g.rebuild();
    }

    pub fn edit(&mut self, rng: &mut Rng, family: Family) -> Vec<String> {
        let mut desc = vec![];
        let nedits = match family {
            Family::EphChain | Family::ValidatedEph | Family::LateFail | Family::EphFail | Family::MultiPart => 1 + rng.below(2),
            Family::Rename => 1 + rng.below(3),
            _ => rng.below(3),
        };
        for _ in 0..nedits {
            let multi = self.conv.multi();
            // biased choice of the edit kind
            let kind = match family {
                Family::EphChain => *rng.pick(&[0, 0, 0, 0, 2, 2, 3, 4, 5, 6, 7]),
                Family::EphFail => *rng.pick(&[0, 0, 0, 0, 0, 2, 2, 2, 5]),
                Family::ValidatedEph => *rng.pick(&[0, 0, 2, 2, 2, 2, 3, 3, 4, 4, 6, 7]),
                Family::LateFail => *rng.pick(&[0, 0, 0, 2, 2, 5]),
                Family::Rename => *rng.pick(&[0, 2, 3, 4, 6, 7, 8, 8, 8, 9, 9, 9]),
                Family::MultiPart => *rng.pick(&[0, 0, 0, 0, 0, 0, 2, 2, 3, 4, 8, 9]),
                Family::KindFlip => {
                    if rng.chance(0.35) {
                        10
                    } else {
                        rng.below(if multi { 10 } else { 8 })
                    }
                }
                _ => rng.below(if multi { 10 } else { 8 }),
            };
            match kind {
                0 | 1 => {
                    let al: Vec<usize> = (0..self.g.nodes.len()).filter(|i| self.g.nodes[*i].kind == JobKind::Always).collect();
                    if !al.is_empty() {
                        let i = *rng.pick(&al);
                        self.g.nodes[i].ver = rng.below(3) as u32;
                        desc.push(format!("ver {}={}", self.g.nodes[i].id, self.g.nodes[i].ver));
                    }
                }
                2 => {
                    let keys: Vec<String> = self.world.borrow().disk.keys().cloned().collect();
                    if !keys.is_empty() {
                        let k = rng.pick(&keys).clone();
                        self.world.borrow_mut().disk.remove(&k);
                        desc.push(format!("delete {}", k));
                    }
                }
                3 => {
                    if self.g.nodes.len() > 1 {
                        let i = rng.below(self.g.nodes.len());
                        let n = self.g.nodes.remove(i);
                        let mut links = vec![];
                        for c in self.g.nodes.iter_mut() {
                            for o in &n.outs {
                                if c.inputs.remove(o) {
                                    links.push((c.base.clone(), o.clone()));
                                }
                            }
                        }
                        desc.push(format!("remove {}", n.id));
                        self.parked.push((n, links));
                    }
                }
                4 => {
                    if !self.parked.is_empty() {
                        let i = rng.below(self.parked.len());
                        let (n, links) = self.parked.remove(i);
                        desc.push(format!("readd {}", n.id));
                        for (cb, name) in links {
                            if n.outs.contains(&name) {
                                if let Some(c) = self.g.nodes.iter_mut().find(|c| c.base == cb) {
                                    // only a job declared later may consume it (keeps the graph acyclic)
                                    if c.rank > n.rank {
                                        c.inputs.insert(name);
                                    }
                                }
                            }
                        }
                        self.g.nodes.push(n);
                    }
                }
                5 => {
                    self.add_node(rng, 0.4, None);
                    desc.push(format!("add J{}", self.next_rank - 1));
                }
                6 => {
                    // drop a consumed name
                    let cand: Vec<usize> = (0..self.g.nodes.len()).filter(|i| !self.g.nodes[*i].inputs.is_empty()).collect();
                    if !cand.is_empty() {
                        let i = *rng.pick(&cand);
                        let names: Vec<String> = self.g.nodes[i].inputs.iter().cloned().collect();
                        let nm = rng.pick(&names).clone();
                        self.g.nodes[i].inputs.remove(&nm);
                        desc.push(format!("uninput {} -/-> {}", nm, self.g.nodes[i].id));
                    }
                }
                7 => {
                    // add a consumed name from a lower-ranked job
                    if self.g.nodes.len() > 1 {
                        let a = rng.below(self.g.nodes.len());
                        let b = rng.below(self.g.nodes.len());
                        if self.g.nodes[a].rank != self.g.nodes[b].rank {
                            let (u, d) = if self.g.nodes[a].rank < self.g.nodes[b].rank { (a, b) } else { (b, a) };
                            let nm = rng.pick(&self.g.nodes[u].outs).clone();
                            if self.g.nodes[d].inputs.insert(nm.clone()) {
                                desc.push(format!("input {} -> {}", nm, self.g.nodes[d].id));
                            }
                        }
                    }
                }
                10 => {
                    // the same job id becomes a job of the other file-producing kind (FileGeneratingJob <-> TempFileGeneratingJob)
                    let cand: Vec<usize> = (0..self.g.nodes.len()).filter(|i| self.g.nodes[*i].kind != JobKind::Always).collect();
                    if !cand.is_empty() {
                        let i = *rng.pick(&cand);
                        let old = self.g.nodes[i].kind;
                        let k = if old == JobKind::Output { JobKind::Ephemeral } else { JobKind::Output };
                        self.g.nodes[i].kind = k;
                        if k == JobKind::Output {
                            // a temp file that may have been left behind is not trusted: start without the file
                            for o in self.g.nodes[i].outs.clone() {
                                self.world.borrow_mut().disk.remove(&o);
                                self.world.borrow_mut().leftover.remove(&o);
                                self.world.borrow_mut().temp.remove(&o);
                            }
                        }
                        desc.push(format!("kindflip {} {:?}->{:?}", self.g.nodes[i].id, old, k));
                    }
                }
                8 => {
                    // gain an output
                    let i = rng.below(self.g.nodes.len());
                    let n = &mut self.g.nodes[i];
                    for suffix in ["b", "c", "d"] {
                        let nm = format!("{}{}", n.base, suffix);
                        if !n.outs.contains(&nm) {
                            desc.push(format!("gain {} on {}", nm, n.id));
                            n.outs.push(nm);
                            break;
                        }
                    }
                }
                _ => {
                    // lose a non-base output
                    let cand: Vec<usize> = (0..self.g.nodes.len()).filter(|i| self.g.nodes[*i].outs.len() > 1).collect();
                    if !cand.is_empty() {
                        let i = *rng.pick(&cand);
                        let base = self.g.nodes[i].base.clone();
                        let extra: Vec<String> = self.g.nodes[i].outs.iter().filter(|o| **o != base).cloned().collect();
                        let nm = rng.pick(&extra).clone();
                        self.g.nodes[i].outs.retain(|o| *o != nm);
                        desc.push(format!("lose {} on {}", nm, self.g.nodes[i].id));
                    }
                }
            }
            self.g.rebuild();
        }
        desc
    }
}

pub fn random_plan(rng: &mut Rng, g: &Graph, family: Family, step: usize) -> Plan {
    let mut plan = Plan { sched_seed: rng.next(), ..Default::default() };
    plan.max_parallel = 1 + rng.below(5);
    plan.cleanup = match rng.below(4) {
        0 => Cleanup::Random(0.0),
        1 => Cleanup::Random(0.5),
        2 => Cleanup::Random(0.9),
        _ => Cleanup::AtEnd,
    };
    plan.garbage_on_fail = rng.chance(0.5);
    let (pf, pj, pa) = match family {
        Family::FailHist => (if step > 0 { 0.7 } else { 0.1 }, 0.35, 0.15),
        Family::ValidatedEph => (0.5, 0.25, 0.25),
        Family::LateFail => (0.7, 0.3, 0.1),
        Family::AbortOffered => (0.2, 0.25, 0.6),
        Family::Rename => (0.4, 0.3, 0.25),
        Family::EphChain => (0.25, 0.2, 0.15),
        Family::EphFail => (0.6, 0.2, 0.15),
        Family::Random | Family::KindFlip => (0.4, 0.25, 0.2),
        Family::MultiPart => (0.3, 0.2, 0.15),
    };
    if rng.chance(pf) {
        for n in &g.nodes {
            let p = if family == Family::LateFail && n.kind == JobKind::Ephemeral { 0.6 } else { pj };
            if rng.chance(p) {
                plan.fail.insert(n.id.clone());
            }
        }
    }
    if rng.chance(pa) {
        let span = if family == Family::AbortOffered { g.nodes.len() + 1 } else { 2 * g.nodes.len() + 1 };
        plan.abort_at = Some(rng.below(span));
        plan.fail_running_on_abort = rng.chance(0.5);
        if family == Family::AbortOffered {
            plan.max_parallel = 1 + rng.below(2);
        }
    }
    plan.history_before_late_acks = rng.chance(0.5);
    plan.abort_when_finished = rng.chance(0.15);
    plan
}

/// what is compared between the plain and the stamped run of the same chain (C15)
#[derive(Clone, Debug, PartialEq)]
pub struct EvalSummary {
    pub step: usize,
    pub started: BTreeSet<String>,
    pub dispositions: BTreeMap<String, &'static str>,
    pub errors: usize,
    pub c15_nontrivial: bool,
    pub case_hash: u64,
    /// a job failed or the evaluation was aborted: what else got started then legitimately depends on
    /// timing (and on the engine's internal hash order), so the two runs may part ways here
    pub faulty: bool,
}

pub struct ChainOutcome {
    /// one JSON object per primary evaluation (only with ChainCfg.export)
    pub export: Vec<String>,
    pub summaries: Vec<EvalSummary>,
    pub violated: bool,
}

fn cmp_fn<'a>(mode: CmpMode, consumed: &'a HashMap<String, BTreeSet<String>>) -> impl Fn(&str, &str, &str, &str) -> bool + 'a {
    move |u, d, a, b| altered(mode, consumed, u, d, a, b)
}

struct Ctx<'a> {
    replay_args: &'a Vec<String>,
    trace: &'a Vec<String>,
}

fn record(acc: &mut Acc, ctx: &Ctx, v: &Violation, tag: &str) {
    acc.violation(Witness {
        prop: v.prop.to_string(),
        rule: v.rule.to_string(),
        sig: v.sig.clone(),
        detail: if tag.is_empty() { v.detail.clone() } else { format!("[{}] {}", tag, v.detail) },
        replay_args: ctx.replay_args.clone(),
        trace: ctx.trace.join(""),
    });
}

fn mk(prop: &'static str, rule: &'static str, sig: String, detail: String) -> Violation {
    Violation { prop, rule, sig: format!("{}|{}", rule, sig), detail }
}

/// Offline checkers over one finished evaluation (event log = Report + inputs).
#[allow(clippy::too_many_arguments)]
pub fn judge_offline(g: &Graph, h_in: &History, disk_after: &BTreeMap<String, String>, rep: &Report, exp: &Expect, mode: CmpMode, acc: &mut Acc) -> Vec<Violation> {
    let mut viols: Vec<Violation> = vec![];
    let hout = match &rep.history_out {
        Some(h) => h,
        None => return viols,
    };
    let consumed = g.consumed();
    let cmp = cmp_fn(mode, &consumed);
    let started = rep.started_set();
    let no_fail = rep.failed.is_empty() && !rep.aborted && rep.errors.is_empty();
    let kc = |id: &str| kind_char(g.kind(id));
    if no_fail {
        // ---- C01: incremental == clean build
        let clean = clean_build(g);
        for n in &g.nodes {
            if n.kind == JobKind::Output {
                for o in &n.outs {
                    match disk_after.get(o) {
                        None => viols.push(mk("C01", "output-missing-after-success", rep.disposition(&n.id).to_string(), format!("{} of {} missing after a failure-free evaluation ({})", o, n.id, rep.state_str(&n.id)))),
                        Some(v) => {
                            if *v != clean[o] {
                                viols.push(mk("C01", "output-differs-from-clean-build", rep.disposition(&n.id).to_string(), format!("{} of {} is {} but a clean build gives {} (job was {})", o, n.id, v, clean[o], rep.disposition(&n.id))));
                            }
                        }
                    }
                }
            }
        }
        // ---- C04 exact
        if !exp.ambiguous && started != exp.executed {
            let extra: Vec<&String> = started.difference(&exp.executed).collect();
            let missing: Vec<&String> = exp.executed.difference(&started).collect();
            let sig = format!(
                "extra={:?} missing={:?}",
                extra.iter().map(|j| format!("{}{}", kc(j), if exp.uptodate[*j] { "u" } else { "s" })).collect::<BTreeSet<_>>(),
                missing.iter().map(|j| format!("{}{}", kc(j), if exp.uptodate[*j] { "u" } else { "s" })).collect::<BTreeSet<_>>()
            );
            viols.push(mk("C04", "executed-set-differs", sig, format!("executed {:?} but expected {:?} (extra {:?}, missing {:?})", started, exp.executed, extra, missing)));
        }
    }
    // ---- C15: a job all of whose records are judged unaltered, some of them textually different, is executed
    if !exp.ambiguous && mode == CmpMode::Stamped {
        for j in &started {
            if !exp.executed.contains(j) && exp.uptodate.get(j).cloned().unwrap_or(false) && exp.textdiff.contains(j) {
                viols.push(mk("C15", "executed-although-judged-unaltered", format!("{}", kc(j)), format!("{} was executed although it is up to date: its records differ from the upstreams' current ones only textually, the configured comparison judges them unaltered", j)));
            }
        }
    }
    if !no_fail {
        for j in &started {
            if !exp.ambiguous && !exp.executed.contains(j) {
                viols.push(mk("C04", "executed-outside-necessary-set", format!("{}", kc(j)), format!("with faults: executed {} which is not in the necessary set {:?}", j, exp.executed)));
            }
        }
    }
    // ---- C13 end of a normally finished evaluation
    if !rep.aborted {
        for j in rep.succeeded.keys() {
            if g.kind(j) != JobKind::Ephemeral || rep.failed.contains(j) {
                continue;
            }
            let all_ok = g.downs(j).iter().all(|e| matches!(rep.disposition(&e.down), "exec" | "skip"));
            if all_ok && !rep.cleanup_offered.contains(j) {
                viols.push(mk("C13", "cleanup-never-offered", rep.state_str(j), format!("ephemeral {} executed, all downstreams fine, but never offered for cleanup ({})", j, rep.state_str(j))));
            }
        }
    }
    // ---- C03: skipped jobs are up to date
    for n in &g.nodes {
        if started.contains(&n.id) || rep.disposition(&n.id) != "skip" {
            continue;
        }
        if g.useless_ephemeral(&n.id) {
            continue;
        }
        if !exp.ambiguous && !exp.uptodate[&n.id] {
            viols.push(mk("C03", "skipped-but-stale", format!("{}", kc(&n.id)), format!("{} skipped ({}) but not up to date", n.id, rep.state_str(&n.id))));
        }
        // "each direct upstream currently has the output that execution consumed": not if the upstream ended failed
        if !rep.aborted {
            if let Some(e) = g.ups(&n.id).iter().find(|e| rep.failed_q.contains(&e.up) || rep.upstream_failed.contains(&e.up)) {
                viols.push(mk("C03", "skipped-although-upstream-failed", format!("{}", kc(&n.id)), format!("{} ends skipped (neither executed nor reported failed / upstream-failed), but its direct upstream {} ended failed / upstream-failed and has no current output", n.id, e.up)));
            }
        }
    }
    // ---- C07 offline (failures only): every never-started job directly below a failed /
    // upstream-failed job is reported upstream-failed, not succeeded or skipped
    // (exempt: Ephemerals on which only Ephemerals depend)
    if !rep.aborted && !rep.failed.is_empty() {
        for n in &g.nodes {
            let j = &n.id;
            if started.contains(j) || rep.upstream_failed.contains(j) {
                continue;
            }
            if g.useless_ephemeral(j) {
                continue;
            }
            for e in g.ups(j) {
                if rep.failed_q.contains(&e.up) || rep.upstream_failed.contains(&e.up) {
                    let skipped_before = match (rep.finished_since.get(j), rep.bad_since.get(&e.up)) {
                        (Some(f), Some(b)) => f < b,
                        _ => false,
                    };
                    if rep.failed_q.contains(&e.up) {
                        viols.push(mk("C17", "upstream-failed-report-inconsistent-with-failed-report", format!("{}:{}", kc(j), rep.disposition(j)), format!("{} is reported failed, its direct consumer {} was never started, yet {} is not in the upstream-failed report (it ends as {})", e.up, j, j, rep.disposition(j))));
                    }
                    viols.push(mk(
                        "C07",
                        "blocked-job-not-upstream-failed",
                        format!("{}:{}:{}", kc(j), rep.disposition(j), if skipped_before { "decided-before-the-failure" } else { "pending-at-the-failure" }),
                        format!("{} was never started and its direct upstream {} ended failed/upstream-failed, but {} ends as {} ({})", j, e.up, j, rep.disposition(j), rep.state_str(j)),
                    ));
                    break;
                }
            }
        }
    }
    // ---- C16: the not-yet-started dependants of a rejected Ephemeral (direct, or through jobs thereby prevented
    // from running) end upstream-failed, and none of them is offered after the rejection
    if !rep.aborted && !rep.rejected.is_empty() {
        for r in &rep.rejected {
            let rej_at = rep.bad_since.get(r).cloned().unwrap_or(usize::MAX);
            let mut below: BTreeSet<String> = BTreeSet::new();
            let mut stack = vec![r.clone()];
            while let Some(x) = stack.pop() {
                for e in g.downs(&x) {
                    // a dependant that was started is not "prevented from running": what is below it is its own business
                    if below.insert(e.down.clone()) && !started.contains(&e.down) {
                        stack.push(e.down.clone());
                    }
                }
            }
            for j in &below {
                if g.useless_ephemeral(j) {
                    continue;
                }
                if started.contains(j) {
                    if rep.first_offer.get(j).map(|o| *o > rej_at).unwrap_or(false) {
                        viols.push(mk("C16", "dependant-of-rejected-ephemeral-offered", format!("{}", kc(j)), format!("{} depends on {} (rejected: changed output) and was first offered after the rejection", j, r)));
                    }
                } else if !rep.upstream_failed.contains(j) && !rep.failed_q.contains(j) {
                    viols.push(mk("C16", "dependant-of-rejected-ephemeral-not-upstream-failed", format!("{}:{}", kc(j), rep.disposition(j)), format!("{} depends on {} (rejected: changed output) and was never started, but ends as {} ({})", j, r, rep.disposition(j), rep.state_str(j))));
                }
            }
        }
    }
    // ---- C08: failed work is never recorded as done
    for j in rep.failed.iter().chain(rep.running_at_abort.iter()) {
        if hout.contains_key(j) || hout.contains_key(&format!("{}!!!", j)) {
            viols.push(mk("C08", "failed-job-has-records", format!("{}:{}", kc(j), rep.disposition(j)), format!("failed/aborted-while-running {} has own records in the returned history", j)));
            if rep.rejected.contains(j) {
                viols.push(mk("C16", "rejected-ephemeral-has-records", "".into(), format!("{} reported a changed output and was rejected, but the returned history has own records for it", j)));
            }
        }
        // every record "<x>!!!j" - also under historical / absent upstream ids - is exactly as before;
        // only the record of a dependency between two present jobs that was removed may be dropped (C18)
        let suffix = format!("!!!{}", j);
        let mut keys: BTreeSet<&String> = h_in.keys().filter(|k| k.ends_with(&suffix) && k.len() > suffix.len()).collect();
        keys.extend(hout.keys().filter(|k| k.ends_with(&suffix) && k.len() > suffix.len()));
        for k in keys {
            let x = &k[..k.len() - suffix.len()];
            if x.contains("!!!") {
                continue;
            }
            let removed_dep = g.node(x).is_some() && !g.has_edge(x, j);
            if removed_dep && !hout.contains_key(k) {
                continue;
            }
            if hout.get(k) != h_in.get(k) {
                viols.push(mk("C08", "failed-job-edge-record-changed", format!("{}:{}:{}", kc(j), rep.disposition(j), if g.node(x).is_some() { "present-upstream" } else { "historical-upstream-id" }), format!("per-dependency record {} of the failed job changed: {:?} -> {:?}", k, h_in.get(k), hout.get(k))));
            }
        }
        let had_all = h_in.contains_key(j) && h_in.contains_key(&format!("{}!!!", j)) && g.ups(j).iter().any(|e| h_in.contains_key(&format!("{}!!!{}", e.up, j)));
        if had_all {
            acc.count("c08_failed_with_full_history", 1);
        }
    }
    // ---- C09 part 1: never-started jobs (upstream failed / aborted) keep all their records
    for n in &g.nodes {
        let d = rep.disposition(&n.id);
        if !started.contains(&n.id) && (d == "upf" || d == "aborted") {
            for k in [n.id.clone(), format!("{}!!!", n.id)] {
                if hout.get(&k) != h_in.get(&k) {
                    viols.push(mk("C09", "never-started-own-record-changed", format!("{}:{}", kc(&n.id), d), format!("never-started {} ({}) record {} changed {:?} -> {:?}", n.id, d, k, h_in.get(&k), hout.get(&k))));
                }
            }
            for e in g.ups(&n.id) {
                let (mut a1, mut a2, mut r1, mut r2) = (false, false, false, false);
                let old = old_edge_record(h_in, &e.up, &n.id, &mut a1, &mut r1);
                let new = old_edge_record(hout, &e.up, &n.id, &mut a2, &mut r2);
                if a1 || a2 {
                    continue;
                }
                let same = match (old, new) {
                    (Some(a), Some(b)) => !cmp(&e.up, &n.id, a, b),
                    (None, None) => true,
                    _ => false,
                };
                if !same {
                    viols.push(mk("C09", "never-started-edge-record-changed", format!("{}:{}", kc(&n.id), d), format!("never-started {} ({}) per-dependency record from {} changed {:?} -> {:?}", n.id, d, e.up, old, new)));
                }
            }
        }
    }
    // ---- C11: successful work recorded faithfully
    for (j, out) in &rep.succeeded {
        if rep.failed.contains(j) {
            continue;
        }
        if hout.get(j) != Some(out) {
            viols.push(mk("C11", "output-record-wrong", format!("{}", kc(j)), format!("{} output record {:?} != reported {}", j, hout.get(j), out)));
        }
        if hout.get(&format!("{}!!!", j)).map(|x| x.as_str()) != Some(g.input_names(j).as_str()) {
            viols.push(mk("C11", "input-list-record-wrong", format!("{}", kc(j)), format!("{} input list record {:?} != {:?}", j, hout.get(&format!("{}!!!", j)), g.input_names(j))));
        }
        for e in g.ups(j) {
            let seen = rep.inputs_seen.get(j).and_then(|m| m.get(&e.up)).cloned().flatten();
            let k = format!("{}!!!{}", e.up, j);
            let udisp = rep.disposition(&e.up);
            let hadrec = h_in.contains_key(&k);
            acc.set("c11_combos", format!("exec<-{}{}", udisp, if hadrec { "" } else { "(no-record-before)" }));
            if seen.is_some() && hout.get(&k) != seen.as_ref() {
                viols.push(mk("C11", "edge-record-not-what-was-consumed", format!("{}<-{}:{}", kc(j), kc(&e.up), udisp), format!("{}: recorded {:?} but the engine reported {:?} for {} when {} was started", k, hout.get(&k), seen, e.up, j)));
            }
        }
    }
    for n in &g.nodes {
        let j = &n.id;
        if started.contains(j) || rep.disposition(j) != "skip" || g.useless_ephemeral(j) || exp.ambiguous || !exp.uptodate[j] {
            continue;
        }
        for k in [j.clone(), format!("{}!!!", j)] {
            if hout.get(&k) != h_in.get(&k) {
                viols.push(mk("C11", "skipped-job-own-record-not-retained", format!("{}", kc(j)), format!("validly skipped {}: record {} {:?} -> {:?}", j, k, h_in.get(&k), hout.get(&k))));
            }
        }
        for e in g.ups(j) {
            let udisp = rep.disposition(&e.up);
            let cur: Option<&String> = match udisp {
                "exec" => rep.succeeded.get(&e.up),
                "skip" => h_in.get(&e.up),
                _ => None,
            };
            let k = format!("{}!!!{}", e.up, j);
            acc.set("c11_combos", format!("skip<-{}{}", udisp, if h_in.contains_key(&k) { "" } else { "(no-record-before)" }));
            if let Some(cur) = cur {
                match hout.get(&k) {
                    None => viols.push(mk("C11", "skipped-job-edge-record-missing", format!("{}<-{}:{}", kc(j), kc(&e.up), udisp), format!("validly skipped {}: record {} missing", j, k))),
                    Some(r) => {
                        if cmp(&e.up, j, r, cur) {
                            viols.push(mk("C11", "skipped-job-edge-record-stale", format!("{}<-{}:{}", kc(j), kc(&e.up), udisp), format!("validly skipped {}: record {} = {} is altered w.r.t. the upstream's current output {}", j, k, r, cur)));
                        }
                    }
                }
            }
        }
    }
    // ---- C18: history of absent jobs kept, of removed dependencies dropped, nothing invented
    let producer: HashMap<String, String> = g.nodes.iter().flat_map(|n| n.outs.iter().map(move |o| (o.clone(), n.id.clone()))).collect();
    let superseded = |id: &str| -> bool { g.node(id).is_none() && id.split(":::").any(|part| producer.get(part).map(|x| x != id).unwrap_or(false)) };
    for (k, v) in hout.iter() {
        if h_in.get(k) == Some(v) {
            continue;
        }
        let ok = if let Some((a, b)) = k.split_once("!!!") {
            if b.is_empty() {
                g.node(a).is_some()
            } else {
                g.has_edge(a, b)
            }
        } else {
            g.node(k).is_some()
        };
        if !ok {
            viols.push(mk("C18", "record-invented", "".into(), format!("record {} = {} neither in the input history nor about the current graph", k, v)));
        }
    }
    let (mut n_absent, mut n_removed_dep, mut n_superseded) = (0, 0, 0);
    for (k, v) in h_in.iter() {
        if let Some((a, b)) = k.split_once("!!!") {
            let a_p = g.node(a).is_some();
            let b_p = b.is_empty() || g.node(b).is_some();
            if !b.is_empty() && a_p && b_p && !g.has_edge(a, b) {
                n_removed_dep += 1;
                if hout.contains_key(k) {
                    viols.push(mk("C18", "removed-dependency-record-kept", "".into(), format!("record of removed dependency {} kept", k)));
                }
            }
            if !a_p && superseded(a) {
                n_superseded += 1;
                // records of a superseded upstream id may survive only while the (present) consumer has not recorded anew
                let pending = !b.is_empty() && b_p && g.node(b).is_some() && matches!(rep.disposition(b), "failed" | "upf" | "aborted");
                if hout.contains_key(k) && !pending {
                    viols.push(mk("C18", "superseded-record-kept", if b.is_empty() { "inputlist".into() } else { "edge".into() }, format!("record {} of a superseded multi-output job kept", k)));
                }
            } else if (!a_p && b.is_empty()) || (!b.is_empty() && (!a_p || !b_p)) {
                n_absent += 1;
                if !(!b.is_empty() && superseded(b)) && hout.get(k) != Some(v) {
                    viols.push(mk("C18", "absent-job-record-not-kept", if b.is_empty() { "inputlist".into() } else { "edge".into() }, format!("record {} of an absent job not kept unchanged: {:?}", k, hout.get(k))));
                }
            }
        } else if g.node(k).is_none() {
            if superseded(k) {
                n_superseded += 1;
                if hout.contains_key(k) {
                    viols.push(mk("C18", "superseded-record-kept", "own".into(), format!("record {} of a superseded multi-output job kept", k)));
                }
            } else {
                n_absent += 1;
                if hout.get(k) != Some(v) {
                    viols.push(mk("C18", "absent-job-record-not-kept", "own".into(), format!("record {} of an absent job not kept unchanged: {:?}", k, hout.get(k))));
                }
            }
        }
    }
    if n_absent > 0 {
        acc.count("c18_evals_with_absent_job_records", 1);
    }
    if n_removed_dep > 0 {
        acc.count("c18_evals_with_removed_dependency_records", 1);
    }
    if n_superseded > 0 {
        acc.count("c18_evals_with_superseded_records", 1);
    }
    viols
}

/// C03 / C04 against the ground-truth reference (independent of the engine's record keeping)
pub fn judge_truth(g: &Graph, rep: &Report, exp: &Expect) -> Vec<Violation> {
    let mut viols = vec![];
    if rep.history_out.is_none() || exp.ambiguous {
        return viols;
    }
    let started = rep.started_set();
    let kc = |id: &str| kind_char(g.kind(id));
    let no_fail = rep.failed.is_empty() && !rep.aborted && rep.errors.is_empty();
    if no_fail {
        if started != exp.executed {
            let extra: Vec<&String> = started.difference(&exp.executed).collect();
            let missing: Vec<&String> = exp.executed.difference(&started).collect();
            let sig = format!(
                "truth extra={:?} missing={:?}",
                extra.iter().map(|j| format!("{}{}", kc(j), if exp.uptodate[*j] { "u" } else { "s" })).collect::<BTreeSet<_>>(),
                missing.iter().map(|j| format!("{}{}", kc(j), if exp.uptodate[*j] { "u" } else { "s" })).collect::<BTreeSet<_>>()
            );
            viols.push(mk("C04", "executed-set-differs-from-ground-truth", sig, format!("executed {:?}, but judging by what the jobs were last built from exactly {:?} is necessary (extra {:?}, missing {:?})", started, exp.executed, extra, missing)));
        }
    } else {
        for j in &started {
            if !exp.executed.contains(j) {
                viols.push(mk("C04", "executed-outside-necessary-set-ground-truth", format!("{}", kc(j)), format!("with faults: executed {} which is not necessary judging by what the jobs were last built from ({:?})", j, exp.executed)));
            }
        }
    }
    for n in &g.nodes {
        if started.contains(&n.id) || rep.disposition(&n.id) != "skip" || g.useless_ephemeral(&n.id) {
            continue;
        }
        if !exp.uptodate[&n.id] {
            viols.push(mk("C03", "skipped-but-stale-ground-truth", format!("{}", kc(&n.id)), format!("{} skipped ({}) although what it was last built from has changed (or it never succeeded)", n.id, rep.state_str(&n.id))));
        }
    }
    viols
}

fn twin_eval(g: &Graph, h: &History, disk: &BTreeMap<String, String>, rng: &mut Rng, stamp: &mut u64, mode: CmpMode, shuffle: bool, next_job: bool) -> (Report, BTreeMap<String, String>) {
    let mut g2 = g.clone();
    if shuffle {
        rng.shuffle(&mut g2.nodes);
        rng.shuffle(&mut g2.edges);
    }
    let w = Rc::new(RefCell::new(World { disk: disk.clone(), ..Default::default() }));
    let mut plan2 = Plan { sched_seed: rng.next(), ..Default::default() };
    plan2.max_parallel = 1 + rng.below(5);
    plan2.cleanup = match rng.below(4) {
        0 => Cleanup::Random(0.0),
        1 => Cleanup::Random(0.5),
        2 => Cleanup::Random(0.9),
        _ => Cleanup::AtEnd,
    };
    plan2.use_next_job = next_job;
    plan2.history_before_late_acks = rng.chance(0.5);
    let r = evaluate(&g2, h, &w, &plan2, mode, stamp, Chooser::Random(Rng::new(plan2.sched_seed)), None);
    let d = w.borrow().disk.clone();
    (r, d)
}

pub struct ChainState {
    pub trace: Vec<String>,
    pub summaries: Vec<EvalSummary>,
    pub violated: bool,
    pub prev_interrupted_or_edited: bool,
    pub prev_had_failure_with_history: bool,
    pub export: Vec<String>,
}
impl ChainState {
    pub fn new() -> Self {
        ChainState { trace: vec![], summaries: vec![], violated: false, prev_interrupted_or_edited: false, prev_had_failure_with_history: false, export: vec![] }
    }
}

fn jmap(h: &History) -> String {
    let b: BTreeMap<&String, &String> = h.iter().collect();
    jobj(&b.iter().map(|(k, v)| ((*k).clone(), jstr(v))).collect::<Vec<_>>())
}

/// one primary evaluation as a JSON object: everything the PyO3 boundary replay needs
#[allow(clippy::too_many_arguments)]
pub fn export_eval(g: &Graph, step: usize, h_in: &History, disk_before: &BTreeMap<String, String>, leftover_before: &BTreeSet<String>, plan: &Plan, rep: &Report, exp: &Expect, noop: bool) -> String {
    let nodes: Vec<String> = g
        .nodes
        .iter()
        .map(|n| {
            jobj(&[
                ("id".to_string(), jstr(&n.id)),
                ("kind".to_string(), jstr(match n.kind {
                    JobKind::Always => "Always",
                    JobKind::Output => "Output",
                    JobKind::Ephemeral => "Ephemeral",
                })),
                ("outs".to_string(), jarr(&n.outs.iter().map(|x| jstr(x)).collect::<Vec<_>>())),
                ("inputs".to_string(), jarr(&n.inputs.iter().map(|x| jstr(x)).collect::<Vec<_>>())),
            ])
        })
        .collect();
    let edges: Vec<String> = g.edges.iter().map(|e| format!("[{},{}]", jstr(&e.down), jstr(&e.up))).collect();
    let mut exec: Vec<&String> = exp.executed.iter().collect();
    exec.sort();
    jobj(&[
        ("step".to_string(), step.to_string()),
        ("nodes".to_string(), jarr(&nodes)),
        ("edges".to_string(), jarr(&edges)),
        ("h_in".to_string(), jmap(h_in)),
        ("disk_before".to_string(), jarr(&disk_before.keys().chain(leftover_before.iter()).map(|x| jstr(x)).collect::<Vec<_>>())),
        ("plan".to_string(), jstr(&plan.brief())),
        ("faulty".to_string(), (rep.interrupted() || !rep.errors.is_empty()).to_string()),
        // re-evaluation of an unchanged project: no edits, the previous evaluation completed, its history handed in
        ("noop".to_string(), noop.to_string()),
        ("rust_errors".to_string(), rep.errors.len().to_string()),
        ("expected_executed".to_string(), jarr(&exec.iter().map(|x| jstr(x)).collect::<Vec<_>>())),
        ("trace".to_string(), jarr(&rep.trace)),
        ("h_out".to_string(), rep.history_out.as_ref().map(jmap).unwrap_or_else(|| "null".to_string())),
    ])
}

/// Run one chain; returns per-evaluation summaries (for the C15 metamorphic comparison).
pub fn run_chain(seed: u64, cfg: &ChainCfg, acc: &mut Acc) -> ChainOutcome {
    let mut grng = Rng::derive(seed, &[1]);
    let mut p = Project::new(&mut grng, cfg);
    let len = if cfg.long { 8 + grng.below(13) } else { 2 + grng.below(6) };
    let mut st = ChainState::new();
    acc.cases += 1;
    for step in 0..len {
        let mut erng = Rng::derive(seed, &[2, step as u64]);
        let mut edits = if step > 0 { p.edit(&mut erng, cfg.family) } else { vec![] };
        if step > 0 && erng.chance(0.05) {
            p.history.clear();
            edits.push("WIPE history".into());
        }
        if p.g.nodes.is_empty() {
            break;
        }
        let mut prng = Rng::derive(seed, &[3, step as u64]);
        let plan = random_plan(&mut prng, &p.g, cfg.family, step);
        if !eval_step(&mut p, cfg, seed, step, edits, plan, acc, &mut st, cfg.replay_args(seed)) {
            break;
        }
    }
    if cfg.verbose {
        println!("{}", st.trace.join(""));
    }
    ChainOutcome { summaries: st.summaries, violated: st.violated, export: st.export }
}

/// One monitored evaluation of a chain plus its twins and offline checkers. Returns false when the chain must stop.
#[allow(clippy::too_many_arguments)]
pub fn eval_step(p: &mut Project, cfg: &ChainCfg, seed: u64, step: usize, edits: Vec<String>, mut plan: Plan, acc: &mut Acc, st: &mut ChainState, replay_args: Vec<String>) -> bool {
    let mode = cfg.conv.mode();
    let mut prng = Rng::derive(seed, &[5, step as u64]);
    {
        plan.misuse = cfg.misuse.clone();
        plan.trace = cfg.export;
        let disk_before = p.world.borrow().disk.clone();
        // (what the evaluation will see as left-behind temporary files: the old ones plus what is still in `temp`)
        let leftover_before: BTreeSet<String> = p.world.borrow().leftover.iter().cloned().chain(p.world.borrow().temp.keys().cloned()).collect();
        if p.history.is_empty() {
            // history lost (or first evaluation): there is nothing an earlier success could vouch with
            p.shadow = Shadow::default();
        }
        {
            // C18: the records of a job one of whose outputs is now produced by a present job of another
            // name are dropped for good - the ground truth must not vouch with them either
            let producer: HashMap<&str, &str> = p.g.nodes.iter().flat_map(|n| n.outs.iter().map(move |o| (o.as_str(), n.id.as_str()))).collect();
            let superseded: Vec<String> = p.shadow.rec.keys().filter(|id| p.g.node(id).is_none() && id.split(":::").any(|part| producer.get(part).map(|x| x != id).unwrap_or(false))).cloned().collect();
            for id in superseded {
                p.shadow.rec.remove(&id);
                p.shadow.dirty.remove(&id);
            }
            // a per-dependency record "<old upstream id>!!!<consumer>" of a renamed multi-output upstream is
            // only kept for a *present* consumer (C18 lets it go otherwise): a job that is absent while one
            // of the names it consumed is produced under another id will legitimately be rebuilt on return
            let absent_renamed: Vec<String> = p
                .shadow
                .rec
                .iter()
                .filter(|(id, r)| {
                    p.g.node(id).is_none()
                        && r.consumed_from.iter().any(|(name, up)| {
                            // the name is produced under another id now, or the id it was consumed from is superseded
                            // (one of its other parts is produced by a present job of a different name)
                            producer.get(name.as_str()).map(|cur| cur != up).unwrap_or(false)
                                || (p.g.node(up).is_none() && up.split(":::").any(|part| producer.get(part).map(|cur| cur != up).unwrap_or(false)))
                        })
                })
                .map(|(id, _)| id.clone())
                .collect();
            for id in absent_renamed {
                p.shadow.dirty.insert(id);
            }
        }
        for n in &p.g.nodes {
            if let Some(r) = p.shadow.rec.get(&n.id) {
                // a dependency was dropped or added since the job last succeeded: per-dependency records may legitimately
                // be gone (C18), so from now on the ground truth abstains about this job until it has succeeded again -
                // except for the one thing it still knows for sure, see `expected_with`: while the names differ from
                // what the job was built with, it is not up to date
                if r.input_names != p.g.input_names(&n.id) {
                    p.shadow.dirty.insert(n.id.clone());
                }
            }
            // an Ephemeral nobody can need "may be left not up to date" (C03): the ground truth abstains
            // for it until it has succeeded again
            if p.g.useless_ephemeral(&n.id) {
                p.shadow.dirty.insert(n.id.clone());
            }
        }
        let exp = expected(&p.g, &p.history, &disk_before, mode, &p.tainted);
        let exp_truth = expected_with(&p.g, &p.history, &disk_before, mode, &p.tainted, Some(&p.shadow));
        if cfg.inject {
            // C16: change the payload of validated ephemerals that will be re-executed for a consumer
            if !cfg.inject_with_faults {
                plan.fail.clear();
                plan.abort_at = None;
            }
            for n in &p.g.nodes {
                if n.kind == JobKind::Ephemeral && exp.uptodate[&n.id] && exp.executed.contains(&n.id) && prng.chance(0.5) {
                    plan.inject.insert(n.id.clone());
                }
            }
        }
        let h_in = p.history.clone();
        {
            let flipped: Vec<&Node> = p.g.nodes.iter().filter(|n| h_in.contains_key(&n.id) && p.kind_at_record.get(&n.id).map(|k| *k != n.kind).unwrap_or(false)).collect();
            if !flipped.is_empty() {
                acc.count("evals_with_own_record_from_another_kind", 1);
                if flipped.iter().any(|n| n.kind == JobKind::Ephemeral && exp.uptodate.get(&n.id).cloned().unwrap_or(false)) {
                    acc.count("evals_with_output_turned_ephemeral_still_up_to_date", 1);
                }
            }
        }
        let rep = evaluate(&p.g, &h_in, &p.world, &plan, mode, &mut p.stamp, Chooser::Random(Rng::new(plan.sched_seed)), Some(&exp.uptodate));
        acc.evaluations += 1;
        acc.primary += 1;
        let disk_after = p.world.borrow().disk.clone();
        st.trace.push(format!(
            "EVAL {} edits={:?}\n  graph: {}\n  hist_in: {}\n  disk_in: {:?}\n  plan: {}\n  log: {:?}\n  final: {:?}\n  hist_out: {}\n",
            step,
            edits,
            p.g.describe(),
            hist_str(&h_in),
            disk_before,
            plan.brief(),
            rep.log,
            p.g.nodes.iter().map(|n| format!("{}={}", n.id, rep.state_str(&n.id))).collect::<Vec<_>>(),
            rep.history_out.as_ref().map(hist_str).unwrap_or_else(|| "NONE".into())
        ));
        let case_hash = fnv(&format!("{}|{}|{:?}|{}", p.g.describe(), hist_str(&h_in), disk_before, plan.brief()));
        if cfg.export {
            let noop = step > 0 && edits.is_empty() && !st.prev_interrupted_or_edited && !h_in.is_empty();
            st.export.push(export_eval(&p.g, step, &h_in, &disk_before, &leftover_before, &plan, &rep, &exp, noop));
        }
        let started = rep.started_set();
        let mut all_viols: Vec<(Violation, &'static str)> = rep.violations.iter().cloned().map(|v| (v, "")).collect();
        let consumed = p.g.consumed();
        let cmp = cmp_fn(mode, &consumed);

        // ------------------------------------------------ twins
        let mut trng = Rng::derive(seed, &[4, step as u64]);
        let mut twin_started_differently = false;
        if cfg.twins && rep.errors.is_empty() && rep.history_out.is_some() {
            let interrupted = rep.interrupted();
            let hout = rep.history_out.as_ref().unwrap();
            // failure-free twin from the same start: other declaration order, schedule, parallelism, ack timing
            let (u, udisk) = twin_eval(&p.g, &h_in, &disk_before, &mut trng, &mut p.stamp, mode, true, false);
            acc.evaluations += 1;
            for v in &u.violations {
                all_viols.push((v.clone(), "twin"));
            }
            if !interrupted && u.history_out.is_none() {
                // this evaluation completed; the same evaluation under another order / schedule did not
                all_viols.push((mk("C14", "twin-did-not-complete", "".into(), format!("this evaluation finished, but with another declaration order / schedule it did not return a history (errors {:?}, unfinished {:?})", u.errors, p.g.nodes.iter().filter(|n| u.disposition(&n.id) == "unfinished").map(|n| format!("{}={}", n.id, u.state_str(&n.id))).collect::<Vec<_>>())), ""));
            }
            if u.errors.is_empty() && u.history_out.is_some() {
                let ustarted = u.started_set();
                if !interrupted {
                    // ---- C14
                    if u.started != rep.started {
                        twin_started_differently = true;
                    }
                    if ustarted != started {
                        all_viols.push((mk("C14", "executed-sets-differ", "".into(), format!("executed {:?} vs twin (other order/schedule) {:?}", started, ustarted)), ""));
                    }
                    for n in &p.g.nodes {
                        let (a, b) = (rep.disposition(&n.id), u.disposition(&n.id));
                        if a != b {
                            all_viols.push((mk("C14", "disposition-differs", format!("{}:{}/{}", kind_char(n.kind), a, b), format!("disposition of {} differs: {} vs {} in the twin", n.id, a, b)), ""));
                        }
                    }
                    if let Some(d) = hist_diff(hout, u.history_out.as_ref().unwrap(), &cmp) {
                        all_viols.push((mk("C14", "histories-differ", "".into(), format!("returned histories differ: {}", d)), ""));
                    }
                    if rep.cleanup_offered != u.cleanup_offered {
                        all_viols.push((mk("C14", "cleanup-offers-differ", "".into(), format!("Ephemerals offered for cleanup {:?} vs {:?} in the twin (other order / schedule)", rep.cleanup_offered, u.cleanup_offered)), ""));
                    }
                    if cfg.next_job_twin {
                        let (v, _vd) = twin_eval(&p.g, &h_in, &disk_before, &mut trng, &mut p.stamp, mode, true, true);
                        acc.evaluations += 1;
                        for x in &v.violations {
                            all_viols.push((x.clone(), "nextjob-twin"));
                        }
                        if v.errors.is_empty() && v.history_out.is_some() {
                            if v.started_set() != started {
                                all_viols.push((mk("C14", "executed-sets-differ", "nextjob".into(), format!("executed {:?} vs next_job_ready_to_run-driven twin {:?}", started, v.started_set())), ""));
                            }
                            if let Some(d) = hist_diff(hout, v.history_out.as_ref().unwrap(), &cmp) {
                                all_viols.push((mk("C14", "histories-differ", "nextjob".into(), format!("returned histories differ (next_job twin): {}", d)), ""));
                            }
                            acc.count("c14_nextjob_twins", 1);
                        }
                    }
                } else {
                    // ---- C07 twin: unaffected Always/Output jobs behave as without the failures
                    if !rep.aborted {
                        let mut affected = 0;
                        let mut unaffected = 0;
                        for n in &p.g.nodes {
                            let anc = p.g.ancestors(&n.id);
                            let has_failed_anc = rep.failed.contains(&n.id) || anc.iter().any(|a| rep.failed.contains(a));
                            if has_failed_anc {
                                if !rep.failed.contains(&n.id) {
                                    affected += 1;
                                }
                                continue;
                            }
                            if n.kind == JobKind::Ephemeral {
                                continue;
                            }
                            unaffected += 1;
                            let (a, b) = (started.contains(&n.id), ustarted.contains(&n.id));
                            if a != b {
                                all_viols.push((mk("C07", "unaffected-job-differs-from-failure-free-run", format!("{}:{}/{}", kind_char(n.kind), a, b), format!("{} has no failed ancestor; executed={} but in the failure-free twin executed={}", n.id, a, b)), ""));
                            }
                            let d = rep.disposition(&n.id);
                            if d != "exec" && d != "skip" {
                                all_viols.push((mk("C07", "unaffected-job-ended-badly", format!("{}:{}", kind_char(n.kind), d), format!("{} has no failed ancestor but ended {}", n.id, rep.state_str(&n.id))), ""));
                            }
                        }
                        if affected > 0 && unaffected > 0 {
                            acc.nontrivial("C07", case_hash);
                        }
                    }
                    // ---- C09: failure-free resume from (returned history, world after)
                    let (r2, rdisk) = twin_eval(&p.g, hout, &disk_after, &mut trng, &mut p.stamp, mode, false, false);
                    acc.evaluations += 1;
                    for v in &r2.violations {
                        all_viols.push((v.clone(), "resume"));
                    }
                    if !(r2.errors.is_empty() && r2.history_out.is_some()) {
                        // the failure-free resume did not complete: whatever failed before and was not started again has
                        // not been "executed again as soon as its upstreams succeed" (C08) - provided the failure-free
                        // evaluation from the same start (the twin above) shows that the job can be reached at all
                        for j in rep.failed.iter().chain(rep.running_at_abort.iter()) {
                            if !r2.started.contains(j) && ustarted.contains(j) && !p.g.useless_ephemeral(j) {
                                all_viols.push((mk("C08", "failed-job-not-executed-again", format!("{}:resume-did-not-complete", kind_char(p.g.kind(j))), format!("{} failed / was running at the abort; the failure-free resume did not complete (errors {:?}) and never executed it", j, r2.errors.iter().map(|e| e.chars().take(120).collect::<String>()).collect::<Vec<_>>())), ""));
                            }
                        }
                    }
                    if r2.errors.is_empty() && r2.history_out.is_some() {
                        for j in &r2.started {
                            if !ustarted.contains(j) {
                                all_viols.push((mk("C09", "resume-executed-extra-job", format!("{}:{}", kind_char(p.g.kind(j)), rep.disposition(j)), format!("resume executed {} (was {} in the interrupted run) which the uninterrupted run {:?} did not", j, rep.disposition(j), ustarted)), ""));
                            }
                            if p.g.kind(j) == JobKind::Output && rep.succeeded.contains_key(j) && !rep.failed.contains(j) {
                                all_viols.push((mk("C09", "resume-reexecuted-succeeded-output", "".into(), format!("resume re-executed Output {} that had already succeeded", j)), ""));
                            }
                            // C08 follow-up is the converse: failed jobs are executed again
                        }
                        for j in rep.failed.iter().chain(rep.running_at_abort.iter()) {
                            // "consequently the next evaluation executes it again as soon as its upstreams succeed"
                            if !r2.started.contains(j) && !p.g.useless_ephemeral(j) {
                                let needed = p.g.kind(j) != JobKind::Ephemeral || p.g.downs(j).iter().any(|e| r2.started.contains(&e.down));
                                if needed {
                                    all_viols.push((mk("C08", "failed-job-not-executed-again", format!("{}:{}", kind_char(p.g.kind(j)), r2.disposition(j)), format!("{} failed / was running at the abort, but the failure-free resume did not execute it ({})", j, r2.state_str(j))), ""));
                                }
                            }
                        }
                        for (k, v) in &udisk {
                            if rdisk.get(k) != Some(v) {
                                all_viols.push((mk("C09", "resume-outputs-differ", "".into(), format!("after resume {} is {:?}, uninterrupted run gives {}", k, rdisk.get(k), v)), ""));
                            }
                        }
                        if let Some(d) = hist_diff(r2.history_out.as_ref().unwrap(), u.history_out.as_ref().unwrap(), &cmp) {
                            all_viols.push((mk("C09", "resume-history-differs", "".into(), format!("history after resume differs from the uninterrupted run's: {}", d)), ""));
                        }
                    }
                }
            }
            if !interrupted {
                // ---- C12: re-evaluate with nothing changed
                let (r2, _d) = twin_eval(&p.g, hout, &disk_after, &mut trng, &mut p.stamp, mode, true, false);
                acc.evaluations += 1;
                for v in &r2.violations {
                    all_viols.push((v.clone(), "rerun"));
                }
                if r2.history_out.is_none() {
                    all_viols.push((mk("C12", "rerun-did-not-complete", "".into(), format!("re-evaluating the unchanged project did not return a history (errors {:?}, unfinished {:?})", r2.errors, p.g.nodes.iter().filter(|n| r2.disposition(&n.id) == "unfinished").map(|n| format!("{}={}", n.id, r2.state_str(&n.id))).collect::<Vec<_>>())), ""));
                }
                if r2.errors.is_empty() && r2.history_out.is_some() {
                    for j in &r2.started {
                        match p.g.kind(j) {
                            JobKind::Output => all_viols.push((mk("C12", "rerun-executed-output", "".into(), format!("re-evaluation of the unchanged project executed Output {}", j)), "")),
                            JobKind::Ephemeral => {
                                if !p.g.feeds_always(j) {
                                    all_viols.push((mk("C12", "rerun-executed-unneeded-ephemeral", "".into(), format!("re-evaluation executed Ephemeral {} which no Always job consumes (through Ephemerals)", j)), ""));
                                }
                            }
                            JobKind::Always => {}
                        }
                    }
                    if let Some(d) = hist_diff(r2.history_out.as_ref().unwrap(), hout, &cmp) {
                        all_viols.push((mk("C12", "rerun-history-differs", "".into(), format!("history after re-evaluation differs: {}", d)), ""));
                    }
                    // the same re-evaluation, aborted at some point while nothing is running: nothing was cut short, so
                    // every job either re-recorded what it had or kept its records - the history is still the same
                    {
                        let w = Rc::new(RefCell::new(World { disk: disk_after.clone(), ..Default::default() }));
                        let mut plan3 = Plan { sched_seed: trng.next(), max_parallel: 1, ..Default::default() };
                        plan3.abort_at = Some(2 * trng.below(p.g.nodes.len() + 1));
                        let r3 = evaluate(&p.g, hout, &w, &plan3, mode, &mut p.stamp, Chooser::Random(Rng::new(plan3.sched_seed)), None);
                        acc.evaluations += 1;
                        if r3.aborted && r3.abort_had_running == 0 && r3.errors.is_empty() {
                            acc.count("c12_aborted_reevaluations_with_nothing_running", 1);
                            match &r3.history_out {
                                Some(h3) => {
                                    if let Some(d) = hist_diff(h3, hout, &cmp) {
                                        all_viols.push((mk("C12", "aborted-rerun-history-differs", "".into(), format!("re-evaluating the unchanged project and aborting while nothing is running returned a different history: {}", d)), "aborted-rerun"));
                                    }
                                }
                                None => all_viols.push((mk("C12", "aborted-rerun-history-differs", "no-history".into(), "re-evaluating the unchanged project and aborting while nothing is running returned no history".to_string()), "aborted-rerun")),
                            }
                            for j in &r3.started {
                                if p.g.kind(j) == JobKind::Output {
                                    all_viols.push((mk("C12", "rerun-executed-output", "aborted".into(), format!("the aborted re-evaluation of the unchanged project executed Output {}", j)), "aborted-rerun"));
                                }
                            }
                        }
                    }
                    let has_out = p.g.nodes.iter().any(|n| n.kind == JobKind::Output);
                    let always_feeds_eph = p.g.nodes.iter().any(|n| n.kind == JobKind::Ephemeral && p.g.feeds_always(&n.id));
                    acc.count("c12_reevaluations", 1);
                    if has_out && always_feeds_eph {
                        acc.nontrivial("C12", case_hash);
                    }
                }
            }
        }
        if cfg.twins && rep.history_out.is_none() && rep.errors.is_empty() && !rep.failed.is_empty() && !rep.aborted {
            // the evaluation with failures did not complete (stall): the jobs without a failed ancestor still have to
            // be executed exactly as in the failure-free evaluation (C07) - compare with the failure-free twin
            let (u, _ud) = twin_eval(&p.g, &h_in, &disk_before, &mut trng, &mut p.stamp, mode, true, false);
            acc.evaluations += 1;
            if u.errors.is_empty() && u.history_out.is_some() {
                let ustarted = u.started_set();
                for n in &p.g.nodes {
                    if n.kind == JobKind::Ephemeral {
                        continue;
                    }
                    let anc = p.g.ancestors(&n.id);
                    if rep.failed.contains(&n.id) || anc.iter().any(|a| rep.failed.contains(a)) {
                        continue;
                    }
                    let (a, b) = (started.contains(&n.id), ustarted.contains(&n.id));
                    if a != b {
                        all_viols.push((mk("C07", "unaffected-job-differs-from-failure-free-run", format!("{}:{}/{}:did-not-complete", kind_char(n.kind), a, b), format!("{} has no failed ancestor; executed={} in the evaluation with failures (which did not complete) but executed={} in the failure-free twin", n.id, a, b)), ""));
                    }
                }
            }
        }
        // ------------------------------------------------ offline checkers
        let off = judge_offline(&p.g, &h_in, &disk_after, &rep, &exp, mode, acc);
        for v in off {
            all_viols.push((v, ""));
        }
        // the same two questions against the ground truth (what the driver saw the jobs consume)
        for v in judge_truth(&p.g, &rep, &exp_truth) {
            all_viols.push((v, "ground-truth"));
        }

        // ------------------------------------------------ non-triviality bookkeeping
        let no_fail = rep.failed.is_empty() && !rep.aborted && rep.errors.is_empty();
        let skipped_out = p.g.nodes.iter().any(|n| n.kind == JobKind::Output && rep.disposition(&n.id) == "skip");
        if rep.history_out.is_some() {
            if no_fail && !h_in.is_empty() && skipped_out && !started.is_empty() {
                acc.nontrivial("C01", case_hash);
            }
            if rep.ondemand_eph_starts > 0 {
                acc.nontrivial("C02", case_hash);
                if rep.ondemand_eph_chain > 0 {
                    acc.count("c02_chains_of_validated_ephemerals", 1);
                }
            }
            let skipped_nonexempt = p.g.nodes.iter().any(|n| rep.disposition(&n.id) == "skip" && !p.g.useless_ephemeral(&n.id));
            if skipped_nonexempt && st.prev_interrupted_or_edited {
                acc.nontrivial("C03", case_hash);
            }
            let shield = p.g.nodes.iter().any(|n| started.contains(&n.id) && rep.disposition(&n.id) == "exec" && p.g.downs(&n.id).iter().any(|e| rep.disposition(&e.down) == "skip" && !p.g.useless_ephemeral(&e.down)));
            if shield {
                acc.nontrivial("C04", case_hash);
            }
            if !exp.used_renamed.is_empty() && p.g.nodes.iter().any(|n| exp.used_renamed.contains(&n.id) && rep.disposition(&n.id) == "skip") {
                acc.count("c04_rename_then_skipped_consumer", 1);
            }
            if rep.max_running >= 2 || rep.out_of_order_completion {
                acc.nontrivial("C05", fnv(&format!("{}{:?}", case_hash, rep.choices)));
            }
            // C06 classes
            let fail_with_hist = rep.failed.iter().any(|j| h_in.contains_key(j));
            let mut c06 = false;
            if fail_with_hist {
                acc.count("c06_failure_of_job_with_history", 1);
                c06 = true;
            }
            if st.prev_had_failure_with_history {
                acc.count("c06_evaluation_after_failure_of_job_with_history", 1);
                c06 = true;
            }
            if !rep.failed.is_empty() && rep.max_running >= 2 {
                acc.count("c06_failure_with_parallel_jobs", 1);
                c06 = true;
            }
            if rep.aborted && rep.abort_had_running > 0 {
                acc.count("c06_abort_with_running_jobs", 1);
                c06 = true;
            }
            if c06 {
                acc.nontrivial("C06", fnv(&format!("{}{:?}", case_hash, rep.choices)));
            }
            let c08n = rep.failed.iter().chain(rep.running_at_abort.iter()).any(|j| h_in.contains_key(j) && h_in.contains_key(&format!("{}!!!", j)) && p.g.ups(j).iter().any(|e| h_in.contains_key(&format!("{}!!!{}", e.up, j))));
            if c08n {
                acc.nontrivial("C08", case_hash);
            }
            if rep.interrupted() {
                let succeeded_before = rep.succeeded.keys().any(|j| !rep.failed.contains(j));
                let never_reached = p.g.nodes.iter().any(|n| !started.contains(&n.id) && matches!(rep.disposition(&n.id), "upf" | "aborted") && exp.uptodate.get(&n.id).cloned().unwrap_or(false));
                let never_reached_any = p.g.nodes.iter().any(|n| !started.contains(&n.id) && matches!(rep.disposition(&n.id), "upf" | "aborted"));
                if succeeded_before && never_reached_any {
                    acc.nontrivial("C09", case_hash);
                }
                if never_reached {
                    acc.count("c09_valid_job_never_reached", 1);
                }
            }
            if !rep.succeeded.is_empty() {
                acc.nontrivial("C11", case_hash);
            }
            if rep.cleanup_multi_down > 0 {
                acc.nontrivial("C13", fnv(&format!("{}{:?}", case_hash, rep.choices)));
            }
            if twin_started_differently && (rep.ondemand_eph_starts > 0 || p.g.nodes.iter().any(|n| n.kind == JobKind::Ephemeral && exp.uptodate[&n.id] && !p.g.useless_ephemeral(&n.id))) {
                acc.nontrivial("C14", case_hash);
            }
            let absent_or_dropped = h_in.keys().any(|k| match k.split_once("!!!") {
                None => p.g.node(k).is_none(),
                Some((a, "")) => p.g.node(a).is_none(),
                Some((a, b)) => p.g.node(a).is_none() || p.g.node(b).is_none() || !p.g.has_edge(a, b),
            });
            if absent_or_dropped {
                acc.nontrivial("C18", case_hash);
            }
        }
        if mode == CmpMode::Stamped && rep.history_out.is_some() {
            let n = p.g.nodes.iter().filter(|n| exp.textdiff.contains(&n.id) && !started.contains(&n.id) && rep.disposition(&n.id) == "skip").count();
            if n > 0 {
                acc.count("c15_skipped_jobs_with_textually_different_unaltered_records", n as u64);
                acc.nontrivial("C15", case_hash);
            }
        }
        if rep.aborted && (rep.abort_had_offered > 0 || rep.abort_had_running > 0) {
            acc.nontrivial("C10", fnv(&format!("{}{:?}", case_hash, rep.choices)));
            if rep.abort_had_offered > 0 {
                acc.count("c10_aborts_with_offered_unstarted", 1);
            }
            if rep.abort_had_running > 0 {
                acc.count("c10_aborts_with_running", 1);
            }
        }
        // C15: a validated ephemeral was re-executed while >=1 consumer did not record
        let c15n = p.g.nodes.iter().any(|n| {
            n.kind == JobKind::Ephemeral
                && exp.uptodate[&n.id]
                && rep.succeeded.contains_key(&n.id)
                && (p.g.downs(&n.id).iter().any(|e| matches!(rep.disposition(&e.down), "failed" | "upf" | "aborted")) || h_in.keys().any(|k| k.starts_with(&format!("{}!!!", n.id)) && k.len() > n.id.len() + 3 && p.g.node(&k[n.id.len() + 3..]).is_none()))
        });
        if !plan.inject.is_empty() {
            for j in &plan.inject {
                if started.contains(j) {
                    acc.count("c16_injections_executed", 1);
                    let pending_dep = p.g.downs(j).iter().any(|e| !started.contains(&e.down) || rep.disposition(&e.down) == "upf");
                    if pending_dep {
                        acc.nontrivial("C16", fnv(&format!("{}{}", case_hash, j)));
                    }
                    if rep.detected_injections.contains(j) {
                        acc.count("c16_injections_detected", 1);
                    }
                }
            }
        } else if cfg.inject {
            // control group: validated ephemerals re-executed without a payload change
            let ctrl = p.g.nodes.iter().filter(|n| n.kind == JobKind::Ephemeral && exp.uptodate[&n.id] && rep.succeeded.contains_key(&n.id)).count();
            acc.count("c16_control_reexecutions_without_change", ctrl as u64);
        }
        if rep.misuse_calls > 0 && rep.errors.is_empty() {
            // ---- C20 twin: the same evaluation (same start, same plan, same choice seed) without the illegal calls.
            // If it makes exactly the same legal calls, everything observable afterwards must be the same too.
            let mut plan2 = plan.clone();
            plan2.misuse = Misuse::Off;
            plan2.trace = false;
            let w2 = Rc::new(RefCell::new(World { disk: disk_before.clone(), ..Default::default() }));
            let mut stamp2 = p.stamp;
            let t = evaluate(&p.g, &h_in, &w2, &plan2, mode, &mut stamp2, Chooser::Random(Rng::new(plan2.sched_seed)), Some(&exp.uptodate));
            acc.evaluations += 1;
            // (the stamp of a reported record differs between the two runs: compare the calls without it)
            let strip = |l: &Vec<String>| -> Vec<String> { l.iter().map(|x| if x.starts_with("ok ") { x.split('|').next().unwrap_or("").to_string() } else { x.clone() }).collect() };
            if strip(&t.log) == strip(&rep.log) {
                acc.count("c20_misuse_free_twins_with_identical_calls", 1);
                // with a failure or an abort, whether a validated job had already been skipped when the fault arrived
                // depends on the engine's internal (hash) order, not on the calls (section 3.8): dispositions and cleanup
                // offers are only compared for fault-free evaluations, the returned history (under the comparison) always
                let faulty = rep.interrupted() || t.interrupted();
                for n in &p.g.nodes {
                    let (a, b) = (rep.disposition(&n.id), t.disposition(&n.id));
                    if a != b && !faulty {
                        all_viols.push((mk("C20", "misuse-changed-later-behaviour", format!("disposition:{}:{}/{}", kind_char(n.kind), a, b), format!("with rejected illegal calls {} ends {}, in the same evaluation without them {}", n.id, a, b)), "misuse-free-twin"));
                    }
                }
                match (&rep.history_out, &t.history_out) {
                    (Some(a), Some(b)) => {
                        if let Some(d) = hist_diff(a, b, &cmp) {
                            all_viols.push((mk("C20", "misuse-changed-later-behaviour", "history".into(), format!("the returned history differs from the one of the same evaluation without the rejected illegal calls: {}", d)), "misuse-free-twin"));
                        }
                    }
                    (None, None) => {}
                    _ => all_viols.push((mk("C20", "misuse-changed-later-behaviour", "history-missing".into(), "only one of the two evaluations (with / without the rejected illegal calls) returned a history".to_string()), "misuse-free-twin")),
                }
                if rep.cleanup_offered != t.cleanup_offered && !faulty {
                    all_viols.push((mk("C20", "misuse-changed-later-behaviour", "cleanup".into(), format!("cleanup offers {:?} vs {:?} without the rejected illegal calls", rep.cleanup_offered, t.cleanup_offered)), "misuse-free-twin"));
                }
            } else {
                acc.count("c20_misuse_free_twins_diverged_no_verdict", 1);
            }
        }
        if rep.misuse_calls > 0 {
            acc.count("c20_misuse_calls", rep.misuse_calls as u64);
            for (st, what) in &rep.misuse_pairs {
                acc.set("c20_state_call_pairs", format!("{}:{}", what, st));
            }
            acc.nontrivial("C20", case_hash);
        }
        for v in &rep.obs_vectors {
            acc.set("c17_observation_vectors", v.clone());
        }
        for (a, b) in &rep.transition_pairs {
            acc.set("c17_transition_pairs", format!("{} -> {}", a, b));
        }
        acc.max("max_parallel_seen", rep.max_running as u64);
        acc.max("max_signal_depth", rep.max_depth as u64);
        acc.max("max_signals_per_call", rep.max_signals);
        acc.max("max_signals_per_call_x100_per_size", rep.max_signals * 100 / (p.g.nodes.len() as u64 + p.g.edges.len() as u64 + 1));
        acc.max("max_jobs", p.g.nodes.len() as u64);
        acc.count("observations", rep.observations as u64);
        if rep.aborted {
            acc.count("aborted_evaluations", 1);
        }
        if !rep.failed.is_empty() {
            acc.count("evaluations_with_failures", 1);
        }
        for prop in ["C01", "C02", "C03", "C04", "C05", "C06", "C07", "C08", "C09", "C10", "C11", "C12", "C13", "C14", "C16", "C17", "C18", "C20"] {
            let g = &p.g;
            let (plan, rep, edits) = (&plan, &rep, &edits);
            acc.sample(prop, || {
                format!(
                    "conv={} family={} seed={} eval#{} edits={:?} graph=[{}] plan=[{}] started={:?} dispositions={:?}",
                    cfg.conv.name(),
                    cfg.family.name(),
                    seed,
                    step,
                    edits,
                    g.describe(),
                    plan.brief(),
                    rep.started,
                    g.nodes.iter().map(|n| format!("{}={}", n.id, rep.disposition(&n.id))).collect::<Vec<_>>()
                )
            });
        }

        st.summaries.push(EvalSummary {
            step,
            started: started.clone(),
            dispositions: p.g.nodes.iter().map(|n| (n.id.clone(), rep.disposition(&n.id))).collect(),
            errors: rep.errors.len(),
            c15_nontrivial: c15n,
            case_hash,
            faulty: rep.interrupted(),
        });

        if !all_viols.is_empty() {
            st.violated = true;
            let ctx = Ctx { replay_args: &replay_args, trace: &st.trace };
            for (v, tag) in &all_viols {
                record(acc, &ctx, v, tag);
            }
            if cfg.verbose {
                for (v, tag) in &all_viols {
                    println!("seed {} step {} {} {} [{}] {}", seed, step, v.prop, v.sig, tag, v.detail.chars().take(300).collect::<String>());
                }
            }
        }
        for j in rep.failed.iter().chain(rep.running_at_abort.iter()) {
            p.tainted.insert(j.clone());
        }
        for (j, out) in rep.succeeded.iter() {
            if !rep.failed.contains(j) {
                p.kind_at_record.insert(j.clone(), p.g.kind(j));
                p.tainted.remove(j);
                p.shadow.dirty.remove(j);
                p.shadow.rec.insert(
                    j.clone(),
                    ShadowRec {
                        input_names: p.g.input_names(j),
                        consumed: rep.consumed_seen.get(j).cloned().unwrap_or_default(),
                        outs: parse_rec(out),
                        consumed_from: p.g.ups(j).iter().flat_map(|e| e.names.iter().map(move |n| (n.clone(), e.up.clone()))).collect(),
                    },
                );
            }
        }
        if rep.history_out.is_some() {
            // a validly skipped job re-records what it consumed under the current upstream ids
            for n in &p.g.nodes {
                if rep.disposition(&n.id) == "skip" && !started.contains(&n.id) {
                    let from: BTreeMap<String, String> = p.g.ups(&n.id).iter().flat_map(|e| e.names.iter().map(move |x| (x.clone(), e.up.clone()))).collect();
                    if let Some(r) = p.shadow.rec.get_mut(&n.id) {
                        r.consumed_from = from;
                    }
                }
            }
        }
        match rep.history_out {
            Some(h) => {
                st.prev_interrupted_or_edited = rep.failed.len() + rep.running_at_abort.len() > 0 || rep.aborted || !edits.is_empty();
                st.prev_had_failure_with_history = rep.failed.iter().any(|j| h_in.contains_key(j));
                p.history = h;
            }
            None => return false,
        }
    }
    true
}

/// C15: the same chain once plain, once stamped; every decision must coincide.
pub fn run_metamorphic(seed: u64, family: Family, maxn: usize, acc: &mut Acc, verbose: bool) {
    let mut c1 = ChainCfg::new(Conv::Plain, family, maxn);
    c1.twins = false;
    let mut c2 = ChainCfg::new(Conv::Stamped, family, maxn);
    c2.twins = true; // includes the C14 twin of the stamped run
    c1.verbose = verbose;
    c2.verbose = verbose;
    let mut a1 = Acc::default();
    let mut a2 = Acc::default();
    let o1 = run_chain(seed, &c1, &mut a1);
    let o2 = run_chain(seed, &c2, &mut a2);
    acc.evaluations += a1.evaluations + a2.evaluations;
    acc.primary += a1.primary + a2.primary;
    acc.cases += 1;
    let args = vec!["one".to_string(), "meta".to_string(), family.name().to_string(), maxn.to_string(), seed.to_string()];
    // errors / order dependence in the stamped run count against C15
    for ((p, _s), e) in a2.viols.iter() {
        let mut w = e.first.clone();
        w.replay_args = args.clone();
        if p == "C06" || p == "C14" || p == "C16" {
            let mut w15 = w.clone();
            w15.prop = "C15".into();
            w15.rule = format!("stamped-run-{}", w.rule);
            w15.sig = format!("stamped-run:{}:{}", p, w.sig);
            acc.violation(w15);
        }
        acc.violation(w);
    }
    for (_k, e) in a1.viols.iter() {
        let mut w = e.first.clone();
        w.replay_args = args.clone();
        acc.violation(w);
    }
    let n = o1.summaries.len().min(o2.summaries.len());
    for i in 0..n {
        let (s1, s2) = (&o1.summaries[i], &o2.summaries[i]);
        if s2.c15_nontrivial {
            acc.nontrivial("C15", s2.case_hash);
        }
        if (s1.started != s2.started || s1.dispositions != s2.dispositions) && (s1.faulty || s2.faulty) {
            // with failures / an abort the set of jobs that were started before the fault arrived depends on
            // timing; from here on the two chains have legitimately different histories - stop comparing
            acc.count("c15_pairs_diverged_under_faults", 1);
            break;
        }
        if s1.started != s2.started || s1.dispositions != s2.dispositions {
            let extra: Vec<&String> = s2.started.difference(&s1.started).collect();
            let missing: Vec<&String> = s1.started.difference(&s2.started).collect();
            acc.violation(Witness {
                prop: "C15".into(),
                rule: "plain-vs-stamped-differ".into(),
                sig: format!("plain-vs-stamped-differ|extra={} missing={}", extra.len().min(1), missing.len().min(1)),
                detail: format!("evaluation #{}: with stamped records (textually new, judged unaltered) the engine executed {:?}, with plain records {:?}; dispositions {:?} vs {:?}", i, s2.started, s1.started, s2.dispositions, s1.dispositions),
                replay_args: args.clone(),
                trace: String::new(),
            });
            break;
        }
    }
    let _ = (o1.violated, o2.violated);
    acc.sample("C15", || format!("family={} seed={} evaluations compared={} (plain vs stamped), e.g. stamped started sets {:?}", family.name(), seed, n, o2.summaries.iter().map(|s| s.started.clone()).collect::<Vec<_>>()));
    for (k, v) in a2.counters {
        *acc.counters.entry(k).or_insert(0) += v;
    }
}
