//! Small-scope exhaustive workload: every DAG over n jobs (fixed topological
//! numbering) x every kind assignment; all schedules by stateless DFS over the
//! driver's choices; every failure subset; every abort point (both styles);
//! every single edit from a fixed alphabet.
use crate::acc::*;
use crate::chain::*;
use crate::driver::*;
use crate::model::*;
use crate::oracle::*;
use pypipegraph2::JobKind;
use std::cell::RefCell;
use std::collections::{BTreeMap, BTreeSet};
use std::rc::Rc;

#[derive(Clone, Copy, Debug, PartialEq, Eq)]
pub enum Phase {
    Faults,
    Edits,
    Misuse,
}
impl Phase {
    pub fn parse(s: &str) -> Phase {
        match s {
            "Faults" | "faults" => Phase::Faults,
            "Edits" | "edits" => Phase::Edits,
            "Misuse" | "misuse" => Phase::Misuse,
            _ => panic!("unknown phase {}", s),
        }
    }
}

pub fn graph_count(n: usize) -> u64 {
    (1u64 << (n * (n - 1) / 2)) * 3u64.pow(n as u32)
}

pub fn build_graph(n: usize, idx: u64) -> Graph {
    let ne = n * (n - 1) / 2;
    let ebits = idx & ((1u64 << ne) - 1);
    let mut kbits = idx >> ne;
    let mut g = Graph { edge_order_seed: idx, ..Default::default() };
    for i in 0..n {
        let kind = match kbits % 3 {
            0 => JobKind::Always,
            1 => JobKind::Output,
            _ => JobKind::Ephemeral,
        };
        kbits /= 3;
        let base = format!("J{}", i);
        g.nodes.push(Node {
            id: base.clone(),
            base: base.clone(),
            outs: vec![base],
            inputs: BTreeSet::new(),
            kind,
            ver: 0,
            dom: [1000u64, 2, 1][((idx as usize) + i) % 3],
            rank: i as u32,
        });
    }
    let mut b = 0;
    for d in 0..n {
        for u in 0..d {
            if ebits >> b & 1 == 1 {
                let name = format!("J{}", u);
                g.nodes[d].inputs.insert(name);
            }
            b += 1;
        }
    }
    g.rebuild();
    g
}

/// enumerate all schedules: f runs one evaluation following `prefix` and returns the (choice, alternatives) trace
pub fn for_all_schedules(limit: usize, mut f: impl FnMut(&[usize]) -> Vec<(usize, usize)>) -> usize {
    let mut prefix: Vec<usize> = vec![];
    let mut count = 0;
    loop {
        let trace = f(&prefix);
        count += 1;
        if count >= limit {
            return count;
        }
        let mut i = trace.len();
        loop {
            if i == 0 {
                return count;
            }
            i -= 1;
            if trace[i].0 + 1 < trace[i].1 {
                break;
            }
        }
        prefix = trace[..i].iter().map(|x| x.0).collect();
        prefix.push(trace[i].0 + 1);
    }
}

struct Start {
    name: &'static str,
    g: Graph,
    history: History,
    disk: BTreeMap<String, String>,
}

fn canonical(g: &Graph, h: &History, disk: &BTreeMap<String, String>, mode: CmpMode, stamp: &mut u64) -> (Report, BTreeMap<String, String>) {
    let w = Rc::new(RefCell::new(World { disk: disk.clone(), ..Default::default() }));
    let plan = Plan { max_parallel: 1, cleanup: Cleanup::Immediate, ..Default::default() };
    let r = evaluate(g, h, &w, &plan, mode, stamp, Chooser::Explicit { prefix: vec![], pos: 0 }, None);
    let d = w.borrow().disk.clone();
    (r, d)
}

fn witness(acc: &mut Acc, n: usize, idx: u64, phase: Phase, v: &Violation, ctxs: &str) {
    acc.violation(Witness {
        prop: v.prop.to_string(),
        rule: v.rule.to_string(),
        sig: v.sig.clone(),
        detail: v.detail.clone(),
        replay_args: vec!["one".into(), "exh".into(), n.to_string(), idx.to_string(), format!("{:?}", phase)],
        trace: ctxs.to_string(),
    });
}

fn mk(prop: &'static str, rule: &'static str, sig: String, detail: String) -> Violation {
    Violation { prop, rule, sig: format!("{}|{}", rule, sig), detail }
}

fn start_states(g: &Graph, mode: CmpMode, stamp: &mut u64, acc: &mut Acc) -> Vec<Start> {
    let mut v = vec![Start { name: "empty", g: g.clone(), history: History::new(), disk: BTreeMap::new() }];
    let (r, disk) = canonical(g, &History::new(), &BTreeMap::new(), mode, stamp);
    acc.evaluations += 1;
    if let Some(h) = r.history_out.clone() {
        if r.violations.is_empty() {
            // all Always jobs changed
            let mut g2 = g.clone();
            for n in g2.nodes.iter_mut() {
                if n.kind == JobKind::Always {
                    n.ver = 1;
                }
            }
            v.push(Start { name: "built+always-changed", g: g2, history: h.clone(), disk: disk.clone() });
            // last output deleted
            if let Some(last) = g.nodes.iter().filter(|n| n.kind == JobKind::Output).last() {
                let mut d2 = disk.clone();
                for o in &last.outs {
                    d2.remove(o);
                }
                v.push(Start { name: "built+last-output-deleted", g: g.clone(), history: h.clone(), disk: d2 });
            } else {
                v.push(Start { name: "built", g: g.clone(), history: h, disk });
            }
        }
    }
    v
}

fn ctx_str(st: &Start, plan: &Plan, rep: &Report) -> String {
    format!(
        "start={} graph=[{}] hist_in={} disk_in={:?} plan=[{}] choices={:?}\n log: {:?}\n final: {:?}\n hist_out: {}\n",
        st.name,
        st.g.describe(),
        hist_str(&st.history),
        st.disk,
        plan.brief(),
        rep.choices,
        rep.log,
        st.g.nodes.iter().map(|n| format!("{}={}", n.id, rep.state_str(&n.id))).collect::<Vec<_>>(),
        rep.history_out.as_ref().map(hist_str).unwrap_or_else(|| "NONE".into())
    )
}

pub fn run_graph(n: usize, idx: u64, phase: Phase, acc: &mut Acc, verbose: bool) {
    let g0 = build_graph(n, idx);
    let mode = if idx % 2 == 0 { CmpMode::Plain } else { CmpMode::Stamped };
    let mut stamp = 0u64;
    acc.cases += 1;
    match phase {
        Phase::Faults => faults(n, idx, &g0, mode, &mut stamp, acc, verbose),
        Phase::Edits => edits(n, idx, &g0, mode, &mut stamp, acc, verbose),
        Phase::Misuse => misuse(n, idx, &g0, mode, &mut stamp, acc, verbose),
    }
}

#[allow(clippy::too_many_arguments)]
fn judge_faulty(n: usize, idx: u64, st: &Start, plan: &Plan, rep: &Report, disk_after: &BTreeMap<String, String>, exp: &Expect, u: &Report, udisk: &BTreeMap<String, String>, mode: CmpMode, stamp: &mut u64, acc: &mut Acc, verbose: bool) {
    let g = &st.g;
    let mut viols: Vec<Violation> = rep.violations.clone();
    viols.extend(judge_offline(g, &st.history, disk_after, rep, exp, mode, acc));
    let consumed = g.consumed();
    let cmp = |a: &str, b: &str, c: &str, d: &str| altered(mode, &consumed, a, b, c, d);
    let started = rep.started_set();
    let case_hash = fnv(&format!("{}{}{}{:?}", idx, st.name, plan.brief(), rep.choices));
    if rep.errors.is_empty() && rep.history_out.is_some() && u.history_out.is_some() {
        let hout = rep.history_out.as_ref().unwrap();
        let ustarted = u.started_set();
        if !rep.interrupted() {
            // C14: every schedule of the failure-free evaluation agrees with the canonical one
            if ustarted != started {
                viols.push(mk("C14", "executed-sets-differ", "".into(), format!("executed {:?} vs canonical schedule {:?}", started, ustarted)));
            }
            for nd in &g.nodes {
                let (a, b) = (rep.disposition(&nd.id), u.disposition(&nd.id));
                if a != b {
                    viols.push(mk("C14", "disposition-differs", format!("{}:{}/{}", kind_char(nd.kind), a, b), format!("disposition of {} differs: {} vs {} under the canonical schedule", nd.id, a, b)));
                }
            }
            if let Some(d) = hist_diff(hout, u.history_out.as_ref().unwrap(), &cmp) {
                viols.push(mk("C14", "histories-differ", "".into(), format!("returned histories differ: {}", d)));
            }
            if rep.cleanup_offered != u.cleanup_offered {
                viols.push(mk("C14", "cleanup-offers-differ", "".into(), format!("Ephemerals offered for cleanup {:?} vs {:?} under the canonical schedule", rep.cleanup_offered, u.cleanup_offered)));
            }
            if rep.started != u.started {
                acc.nontrivial("C14", case_hash);
            }
        } else {
            if !rep.aborted {
                let mut affected = 0;
                let mut unaffected = 0;
                for nd in &g.nodes {
                    let anc = g.ancestors(&nd.id);
                    if rep.failed.contains(&nd.id) || anc.iter().any(|a| rep.failed.contains(a)) {
                        if !rep.failed.contains(&nd.id) {
                            affected += 1;
                        }
                        continue;
                    }
                    if nd.kind == JobKind::Ephemeral {
                        continue;
                    }
                    unaffected += 1;
                    let (a, b) = (started.contains(&nd.id), ustarted.contains(&nd.id));
                    if a != b {
                        viols.push(mk("C07", "unaffected-job-differs-from-failure-free-run", format!("{}:{}/{}", kind_char(nd.kind), a, b), format!("{} has no failed ancestor; executed={} but in the failure-free run executed={}", nd.id, a, b)));
                    }
                    let d = rep.disposition(&nd.id);
                    if d != "exec" && d != "skip" {
                        viols.push(mk("C07", "unaffected-job-ended-badly", format!("{}:{}", kind_char(nd.kind), d), format!("{} has no failed ancestor but ended {}", nd.id, rep.state_str(&nd.id))));
                    }
                }
                if affected > 0 && unaffected > 0 {
                    acc.nontrivial("C07", case_hash);
                }
            }
            // resume
            let w = Rc::new(RefCell::new(World { disk: disk_after.clone(), ..Default::default() }));
            let plan2 = Plan { max_parallel: 2, cleanup: Cleanup::Immediate, ..Default::default() };
            let r2 = evaluate(g, hout, &w, &plan2, mode, stamp, Chooser::Explicit { prefix: vec![], pos: 0 }, None);
            acc.evaluations += 1;
            let rdisk = w.borrow().disk.clone();
            viols.extend(r2.violations.iter().cloned());
            if r2.errors.is_empty() && r2.history_out.is_some() {
                for j in &r2.started {
                    if !ustarted.contains(j) {
                        viols.push(mk("C09", "resume-executed-extra-job", format!("{}:{}", kind_char(g.kind(j)), rep.disposition(j)), format!("resume executed {} (was {} in the interrupted run) which the uninterrupted run {:?} did not", j, rep.disposition(j), ustarted)));
                    }
                    if g.kind(j) == JobKind::Output && rep.succeeded.contains_key(j) && !rep.failed.contains(j) {
                        viols.push(mk("C09", "resume-reexecuted-succeeded-output", "".into(), format!("resume re-executed Output {} that had already succeeded", j)));
                    }
                }
                for j in rep.failed.iter().chain(rep.running_at_abort.iter()) {
                    if !r2.started.contains(j) && !g.useless_ephemeral(j) {
                        let needed = g.kind(j) != JobKind::Ephemeral || g.downs(j).iter().any(|e| r2.started.contains(&e.down));
                        if needed {
                            viols.push(mk("C08", "failed-job-not-executed-again", format!("{}:{}", kind_char(g.kind(j)), r2.disposition(j)), format!("{} failed / was running at the abort, but the failure-free resume did not execute it ({})", j, r2.state_str(j))));
                        }
                    }
                }
                for (k, v) in udisk {
                    if rdisk.get(k) != Some(v) {
                        viols.push(mk("C09", "resume-outputs-differ", "".into(), format!("after resume {} is {:?}, uninterrupted run gives {}", k, rdisk.get(k), v)));
                    }
                }
                if let Some(d) = hist_diff(r2.history_out.as_ref().unwrap(), u.history_out.as_ref().unwrap(), &cmp) {
                    viols.push(mk("C09", "resume-history-differs", "".into(), format!("history after resume differs from the uninterrupted run's: {}", d)));
                }
            }
            let succeeded_before = rep.succeeded.keys().any(|j| !rep.failed.contains(j));
            let never_reached = g.nodes.iter().any(|nd| !started.contains(&nd.id) && matches!(rep.disposition(&nd.id), "upf" | "aborted"));
            if succeeded_before && never_reached {
                acc.nontrivial("C09", case_hash);
            }
        }
    }
    // coverage bookkeeping
    if rep.aborted && (rep.abort_had_offered > 0 || rep.abort_had_running > 0) {
        acc.nontrivial("C10", case_hash);
        if rep.abort_had_offered > 0 {
            acc.count("c10_aborts_with_offered_unstarted", 1);
        }
        if rep.abort_had_running > 0 {
            acc.count("c10_aborts_with_running", 1);
        }
    }
    if rep.max_running >= 2 || rep.out_of_order_completion {
        acc.nontrivial("C05", case_hash);
    }
    if !rep.failed.is_empty() || rep.aborted {
        acc.nontrivial("C06", case_hash);
        if rep.failed.iter().any(|j| st.history.contains_key(j)) {
            acc.count("c06_failure_of_job_with_history", 1);
        }
    }
    if rep.failed.iter().chain(rep.running_at_abort.iter()).any(|j| st.history.contains_key(j) && st.history.contains_key(&format!("{}!!!", j)) && g.ups(j).iter().any(|e| st.history.contains_key(&format!("{}!!!{}", e.up, j)))) {
        acc.nontrivial("C08", case_hash);
    }
    if rep.cleanup_multi_down > 0 {
        acc.nontrivial("C13", case_hash);
    }
    for v in &rep.obs_vectors {
        acc.set("c17_observation_vectors", v.clone());
    }
    for (a, b) in &rep.transition_pairs {
        acc.set("c17_transition_pairs", format!("{} -> {}", a, b));
    }
    acc.max("max_parallel_seen", rep.max_running as u64);
    acc.count("observations", rep.observations as u64);
    if !viols.is_empty() {
        let c = ctx_str(st, plan, rep);
        for v in &viols {
            witness(acc, n, idx, Phase::Faults, v, &c);
            if verbose {
                println!("{} {} :: {}\n{}", v.prop, v.sig, v.detail, c);
            }
        }
    }
}

fn faults(n: usize, idx: u64, g0: &Graph, mode: CmpMode, stamp: &mut u64, acc: &mut Acc, verbose: bool) {
    let starts = start_states(g0, mode, stamp, acc);
    for st in &starts {
        let g = &st.g;
        let exp = expected(g, &st.history, &st.disk, mode, &BTreeSet::new());
        // uninterrupted reference run
        let (u, udisk) = canonical(g, &st.history, &st.disk, mode, stamp);
        acc.evaluations += 1;
        let ids: Vec<String> = g.nodes.iter().map(|x| x.id.clone()).collect();
        let mut sched_total = 0u64;
        for mask in 0..(1u32 << n) {
            let fail: BTreeSet<String> = (0..n).filter(|i| mask >> i & 1 == 1).map(|i| ids[i].clone()).collect();
            let cleanup = if (idx + mask as u64) % 2 == 0 { Cleanup::Immediate } else { Cleanup::AtEnd };
            let garbage = mask % 2 == 1;
            let mut schedules: Vec<Vec<(usize, usize)>> = vec![];
            let nsched = for_all_schedules(20000, |prefix| {
                let w = Rc::new(RefCell::new(World { disk: st.disk.clone(), ..Default::default() }));
                let plan = Plan { fail: fail.clone(), max_parallel: 2, cleanup: cleanup.clone(), garbage_on_fail: garbage, ..Default::default() };
                let rep = evaluate(g, &st.history, &w, &plan, mode, stamp, Chooser::Explicit { prefix: prefix.to_vec(), pos: 0 }, Some(&exp.uptodate));
                acc.evaluations += 1;
                acc.primary += 1;
                let disk_after = w.borrow().disk.clone();
                judge_faulty(n, idx, st, &plan, &rep, &disk_after, &exp, &u, &udisk, mode, stamp, acc, verbose);
                if mask == 0 {
                    schedules.push(rep.choices.clone());
                }
                rep.choices
            });
            sched_total += nsched as u64;
            acc.count("failure_subsets", 1);
            // abort points: only with the empty failure set; at every prefix of every schedule, both styles
            if mask == 0 {
                for sch in &schedules {
                    for k in 0..sch.len() {
                        // canonical representative of the prefix: all later choices are 0
                        if sch[k.min(sch.len())..].iter().any(|c| c.0 != 0) {
                            continue;
                        }
                        for style in [false, true] {
                            let w = Rc::new(RefCell::new(World { disk: st.disk.clone(), ..Default::default() }));
                            let plan = Plan { abort_at: Some(k), fail_running_on_abort: style, max_parallel: 2, cleanup: cleanup.clone(), garbage_on_fail: style, ..Default::default() };
                            let prefix: Vec<usize> = sch[..k.min(sch.len())].iter().map(|c| c.0).collect();
                            let rep = evaluate(g, &st.history, &w, &plan, mode, stamp, Chooser::Explicit { prefix, pos: 0 }, Some(&exp.uptodate));
                            acc.evaluations += 1;
                            acc.primary += 1;
                            acc.count("abort_points", 1);
                            let disk_after = w.borrow().disk.clone();
                            judge_faulty(n, idx, st, &plan, &rep, &disk_after, &exp, &u, &udisk, mode, stamp, acc, verbose);
                        }
                    }
                }
            }
        }
        acc.count("schedules_enumerated", sched_total);
        acc.max("max_schedules_per_case", sched_total);
    }
    acc.sample("exhaustive", || format!("n={} graph#{} [{}] start states {:?}", n, idx, g0.describe(), starts.iter().map(|s| s.name).collect::<Vec<_>>()));
}

#[derive(Clone, Debug)]
enum Edit {
    None,
    Bump(usize),
    Delete(usize),
    RemoveJob(usize),
    RemoveEdge(usize, usize),
    AddEdge(usize, usize),
    Wipe,
}

fn apply_edit(g: &Graph, disk: &BTreeMap<String, String>, h: &History, e: &Edit) -> (Graph, BTreeMap<String, String>, History) {
    let mut g2 = g.clone();
    let mut d2 = disk.clone();
    let mut h2 = h.clone();
    match e {
        Edit::None => {}
        Edit::Bump(i) => g2.nodes[*i].ver += 1,
        Edit::Delete(i) => {
            for o in &g.nodes[*i].outs {
                d2.remove(o);
            }
        }
        Edit::RemoveJob(i) => {
            let n = g2.nodes.remove(*i);
            for c in g2.nodes.iter_mut() {
                for o in &n.outs {
                    c.inputs.remove(o);
                }
            }
        }
        Edit::RemoveEdge(u, d) => {
            let name = g.nodes[*u].outs[0].clone();
            g2.nodes[*d].inputs.remove(&name);
        }
        Edit::AddEdge(u, d) => {
            let name = g.nodes[*u].outs[0].clone();
            g2.nodes[*d].inputs.insert(name);
        }
        Edit::Wipe => h2.clear(),
    }
    g2.rebuild();
    (g2, d2, h2)
}

fn edits(n: usize, idx: u64, g0: &Graph, mode: CmpMode, stamp: &mut u64, acc: &mut Acc, verbose: bool) {
    let (r0, disk0) = canonical(g0, &History::new(), &BTreeMap::new(), mode, stamp);
    acc.evaluations += 1;
    let h0 = match (&r0.history_out, r0.violations.is_empty()) {
        (Some(h), true) => h.clone(),
        _ => {
            let st = Start { name: "empty", g: g0.clone(), history: History::new(), disk: BTreeMap::new() };
            let c = ctx_str(&st, &Plan::default(), &r0);
            for v in &r0.violations {
                witness(acc, n, idx, Phase::Edits, v, &c);
            }
            return;
        }
    };
    let mut alphabet = vec![Edit::None, Edit::Wipe];
    for i in 0..n {
        match g0.nodes[i].kind {
            JobKind::Always => alphabet.push(Edit::Bump(i)),
            JobKind::Output => alphabet.push(Edit::Delete(i)),
            _ => {}
        }
        alphabet.push(Edit::RemoveJob(i));
    }
    for d in 0..n {
        for u in 0..d {
            if g0.nodes[d].inputs.contains(&g0.nodes[u].outs[0]) {
                alphabet.push(Edit::RemoveEdge(u, d));
            } else {
                alphabet.push(Edit::AddEdge(u, d));
            }
        }
    }
    for e in &alphabet {
        let (g, disk, h) = apply_edit(g0, &disk0, &h0, e);
        if g.nodes.is_empty() {
            continue;
        }
        let st = Start { name: "after-edit", g: g.clone(), history: h.clone(), disk: disk.clone() };
        let exp = expected(&g, &h, &disk, mode, &BTreeSet::new());
        let mut first: Option<(Report, BTreeMap<String, String>)> = None;
        let consumed = g.consumed();
        let cmp = |a: &str, b: &str, c: &str, d: &str| altered(mode, &consumed, a, b, c, d);
        let nsched = for_all_schedules(20000, |prefix| {
            let w = Rc::new(RefCell::new(World { disk: disk.clone(), ..Default::default() }));
            let plan = Plan { max_parallel: 2, cleanup: if idx % 2 == 0 { Cleanup::Immediate } else { Cleanup::AtEnd }, ..Default::default() };
            let rep = evaluate(&g, &h, &w, &plan, mode, stamp, Chooser::Explicit { prefix: prefix.to_vec(), pos: 0 }, Some(&exp.uptodate));
            acc.evaluations += 1;
            acc.primary += 1;
            let disk_after = w.borrow().disk.clone();
            let mut viols = rep.violations.clone();
            viols.extend(judge_offline(&g, &h, &disk_after, &rep, &exp, mode, acc));
            let case_hash = fnv(&format!("{}{:?}{:?}", idx, e, rep.choices));
            if let Some((f, _)) = &first {
                if rep.history_out.is_some() != f.history_out.is_some() {
                    viols.push(mk("C14", "twin-did-not-complete", "".into(), "one schedule of this evaluation returned a history, another did not".to_string()));
                }
            }
            if let Some((f, fdisk)) = &first {
                if rep.history_out.is_some() && f.history_out.is_some() {
                    if f.started_set() != rep.started_set() {
                        viols.push(mk("C14", "executed-sets-differ", "".into(), format!("executed {:?} vs first schedule {:?}", rep.started_set(), f.started_set())));
                    }
                    for nd in &g.nodes {
                        let (a, b) = (rep.disposition(&nd.id), f.disposition(&nd.id));
                        if a != b {
                            viols.push(mk("C14", "disposition-differs", format!("{}:{}/{}", kind_char(nd.kind), a, b), format!("disposition of {} differs between schedules: {} vs {}", nd.id, a, b)));
                        }
                    }
                    if let Some(d) = hist_diff(rep.history_out.as_ref().unwrap(), f.history_out.as_ref().unwrap(), &cmp) {
                        viols.push(mk("C14", "histories-differ", "".into(), format!("returned histories differ between schedules: {}", d)));
                    }
                    if rep.cleanup_offered != f.cleanup_offered {
                        viols.push(mk("C14", "cleanup-offers-differ", "".into(), format!("Ephemerals offered for cleanup differ between schedules: {:?} vs {:?}", rep.cleanup_offered, f.cleanup_offered)));
                    }
                    if *fdisk != disk_after {
                        viols.push(mk("C14", "outputs-differ", "".into(), format!("outputs differ between schedules: {:?} vs {:?}", disk_after, fdisk)));
                    }
                    if f.started != rep.started {
                        acc.nontrivial("C14", case_hash);
                    }
                }
            }
            if rep.history_out.is_some() {
                let started = rep.started_set();
                let skipped_out = g.nodes.iter().any(|nd| nd.kind == JobKind::Output && rep.disposition(&nd.id) == "skip");
                if skipped_out && !started.is_empty() && !h.is_empty() {
                    acc.nontrivial("C01", case_hash);
                }
                if rep.ondemand_eph_starts > 0 {
                    acc.nontrivial("C02", case_hash);
                }
                if g.nodes.iter().any(|nd| rep.disposition(&nd.id) == "skip" && !g.useless_ephemeral(&nd.id)) && !matches!(e, Edit::None) {
                    acc.nontrivial("C03", case_hash);
                }
                if g.nodes.iter().any(|nd| rep.disposition(&nd.id) == "exec" && g.downs(&nd.id).iter().any(|x| rep.disposition(&x.down) == "skip" && !g.useless_ephemeral(&x.down))) {
                    acc.nontrivial("C04", case_hash);
                }
                if rep.max_running >= 2 || rep.out_of_order_completion {
                    acc.nontrivial("C05", case_hash);
                }
                if !rep.succeeded.is_empty() {
                    acc.nontrivial("C11", case_hash);
                }
                if matches!(e, Edit::RemoveJob(_) | Edit::RemoveEdge(_, _)) {
                    acc.nontrivial("C18", case_hash);
                }
            }
            if !viols.is_empty() {
                let c = format!("edit={:?} {}", e, ctx_str(&st, &plan, &rep));
                for v in &viols {
                    witness(acc, n, idx, Phase::Edits, v, &c);
                    if verbose {
                        println!("{} {} :: {}\n{}", v.prop, v.sig, v.detail, c);
                    }
                }
            }
            let ch = rep.choices.clone();
            if first.is_none() {
                first = Some((rep, disk_after));
            }
            ch
        });
        acc.count("schedules_enumerated", nsched as u64);
        acc.count("edits_applied", 1);
        // follow-ups on the first schedule's result
        if let Some((f, fdisk)) = &first {
            if let (Some(h1), true) = (&f.history_out, f.violations.is_empty()) {
                // C12: re-evaluate unchanged
                let (r2, _d2) = canonical(&g, h1, fdisk, mode, stamp);
                acc.evaluations += 1;
                let mut viols = r2.violations.clone();
                let exp2 = expected(&g, h1, fdisk, mode, &BTreeSet::new());
                viols.extend(judge_offline(&g, h1, &_d2, &r2, &exp2, mode, acc));
                if r2.history_out.is_none() {
                    viols.push(mk("C12", "rerun-did-not-complete", "".into(), format!("re-evaluating the unchanged project did not return a history (errors {:?})", r2.errors)));
                }
                if r2.history_out.is_some() {
                    for j in &r2.started {
                        match g.kind(j) {
                            JobKind::Output => viols.push(mk("C12", "rerun-executed-output", "".into(), format!("re-evaluation of the unchanged project executed Output {}", j))),
                            JobKind::Ephemeral => {
                                if !g.feeds_always(j) {
                                    viols.push(mk("C12", "rerun-executed-unneeded-ephemeral", "".into(), format!("re-evaluation executed Ephemeral {} which no Always job consumes", j)));
                                }
                            }
                            _ => {}
                        }
                    }
                    if let Some(d) = hist_diff(r2.history_out.as_ref().unwrap(), h1, &cmp) {
                        viols.push(mk("C12", "rerun-history-differs", "".into(), format!("history after re-evaluation differs: {}", d)));
                    }
                    acc.count("c12_reevaluations", 1);
                    if g.nodes.iter().any(|nd| nd.kind == JobKind::Output) && g.nodes.iter().any(|nd| nd.kind == JobKind::Ephemeral && g.feeds_always(&nd.id)) {
                        acc.nontrivial("C12", fnv(&format!("{}{:?}", idx, e)));
                    }
                }
                if !viols.is_empty() {
                    let st2 = Start { name: "re-evaluation", g: g.clone(), history: h1.clone(), disk: fdisk.clone() };
                    let c = format!("edit={:?} {}", e, ctx_str(&st2, &Plan::default(), &r2));
                    for v in &viols {
                        witness(acc, n, idx, Phase::Edits, v, &c);
                        if verbose {
                            println!("{} {} :: {}\n{}", v.prop, v.sig, v.detail, c);
                        }
                    }
                }
                // restore the original graph after a removal: the re-added job/dependency is judged
                // against what it last consumed (C18, C03, C01)
                if matches!(e, Edit::RemoveJob(_) | Edit::RemoveEdge(_, _) | Edit::AddEdge(_, _)) {
                    let exp3 = expected(g0, h1, fdisk, mode, &BTreeSet::new());
                    let (r3, d3) = canonical(g0, h1, fdisk, mode, stamp);
                    acc.evaluations += 1;
                    let mut viols = r3.violations.clone();
                    viols.extend(judge_offline(g0, h1, &d3, &r3, &exp3, mode, acc));
                    if r3.history_out.is_some() {
                        acc.nontrivial("C18", fnv(&format!("restore{}{:?}", idx, e)));
                        acc.count("c18_restore_after_removal", 1);
                    }
                    if !viols.is_empty() {
                        let st3 = Start { name: "original-graph-restored", g: g0.clone(), history: h1.clone(), disk: fdisk.clone() };
                        let c = format!("edit={:?} then restored; {}", e, ctx_str(&st3, &Plan::default(), &r3));
                        for v in &viols {
                            witness(acc, n, idx, Phase::Edits, v, &c);
                            if verbose {
                                println!("{} {} :: {}\n{}", v.prop, v.sig, v.detail, c);
                            }
                        }
                    }
                }
            }
        }
    }
    acc.sample("exhaustive", || format!("n={} graph#{} [{}] edit alphabet {:?}", n, idx, g0.describe(), alphabet));
}

fn misuse(n: usize, idx: u64, g0: &Graph, mode: CmpMode, stamp: &mut u64, acc: &mut Acc, verbose: bool) {
    let starts = start_states(g0, mode, stamp, acc);
    for st in &starts {
        let g = &st.g;
        let ids: Vec<String> = g.nodes.iter().map(|x| x.id.clone()).collect();
        // failure subsets of size <= 1
        let mut fails: Vec<BTreeSet<String>> = vec![BTreeSet::new()];
        for i in &ids {
            fails.push([i.clone()].into_iter().collect());
        }
        for fail in &fails {
            let ns = for_all_schedules(20000, |prefix| {
                let mk_plan = |m: Misuse| Plan { fail: fail.clone(), max_parallel: 2, cleanup: if idx % 2 == 0 { Cleanup::Immediate } else { Cleanup::AtEnd }, misuse: m, ..Default::default() };
                let w = Rc::new(RefCell::new(World { disk: st.disk.clone(), ..Default::default() }));
                let plan = mk_plan(Misuse::Every);
                let mut s1 = *stamp;
                let rep = evaluate(g, &st.history, &w, &plan, mode, &mut s1, Chooser::Explicit { prefix: prefix.to_vec(), pos: 0 }, None);
                let w2 = Rc::new(RefCell::new(World { disk: st.disk.clone(), ..Default::default() }));
                let plan2 = mk_plan(Misuse::Off);
                let mut s2 = *stamp;
                let twin = evaluate(g, &st.history, &w2, &plan2, mode, &mut s2, Chooser::Explicit { prefix: prefix.to_vec(), pos: 0 }, None);
                *stamp = s1.max(s2);
                acc.evaluations += 2;
                acc.primary += 1;
                let mut viols = rep.violations.clone();
                // the rest of the run must be exactly what it is without the illegal calls
                if twin.errors.is_empty() {
                    let same = rep.started == twin.started
                        && rep.choices == twin.choices
                        && rep.history_out == twin.history_out
                        && g.nodes.iter().all(|nd| rep.state_str(&nd.id) == twin.state_str(&nd.id))
                        && w.borrow().disk == w2.borrow().disk;
                    if !same {
                        viols.push(mk("C20", "run-differs-from-misuse-free-twin", "".into(), format!("with rejected illegal calls the run went {:?} / {:?}, without {:?} / {:?}", rep.started, rep.history_out.as_ref().map(hist_str), twin.started, twin.history_out.as_ref().map(hist_str))));
                    }
                }
                acc.count("c20_misuse_calls", rep.misuse_calls as u64);
                for (s, what) in &rep.misuse_pairs {
                    acc.set("c20_state_call_pairs", format!("{}:{}", what, s));
                }
                acc.nontrivial("C20", fnv(&format!("{}{}{:?}{:?}", idx, st.name, fail, rep.choices)));
                if !viols.is_empty() {
                    let c = ctx_str(st, &plan, &rep);
                    for v in &viols {
                        witness(acc, n, idx, Phase::Misuse, v, &c);
                        if verbose {
                            println!("{} {} :: {}\n{}", v.prop, v.sig, v.detail, c);
                        }
                    }
                }
                rep.choices
            });
            acc.count("schedules_enumerated", ns as u64);
        }
    }
    acc.sample("exhaustive", || format!("n={} graph#{} [{}] misuse at every observation of every schedule, failure subsets of size<=1", n, idx, g0.describe()));
}
