//! Accumulator of what a run observed: counts, distinct non-trivial cases per
//! property, violations by signature (with first witnesses), coverage sets.
use std::collections::{BTreeMap, BTreeSet, HashSet};

#[derive(Clone, Debug)]
pub struct Witness {
    pub prop: String,
    pub rule: String,
    pub sig: String,
    pub detail: String,
    pub replay_args: Vec<String>,
    pub trace: String,
}

#[derive(Clone, Debug)]
pub struct VEntry {
    pub count: u64,
    pub first: Witness,
}

#[derive(Default)]
pub struct Acc {
    pub evaluations: u64,
    pub primary: u64,
    pub cases: u64,
    pub nontrivial: BTreeMap<String, HashSet<u64>>,
    pub viols: BTreeMap<(String, String), VEntry>,
    pub counters: BTreeMap<String, u64>,
    pub maxima: BTreeMap<String, u64>,
    pub sets: BTreeMap<String, BTreeSet<String>>,
    pub samples: BTreeMap<String, Vec<String>>,
    pub inconclusive: Vec<String>,
    /// exported chains (JSON lines) of a PyO3 boundary replay workload; not part of the summary
    pub export_lines: Vec<String>,
}

impl Acc {
    pub fn nontrivial(&mut self, prop: &str, h: u64) {
        self.nontrivial.entry(prop.to_string()).or_default().insert(h);
    }
    pub fn count(&mut self, k: &str, n: u64) {
        *self.counters.entry(k.to_string()).or_insert(0) += n;
    }
    pub fn max(&mut self, k: &str, n: u64) {
        let e = self.maxima.entry(k.to_string()).or_insert(0);
        if n > *e {
            *e = n;
        }
    }
    pub fn set(&mut self, k: &str, v: String) {
        let s = self.sets.entry(k.to_string()).or_default();
        if s.len() < 5000 {
            s.insert(v);
        }
    }
    pub fn sample(&mut self, prop: &str, s: impl FnOnce() -> String) {
        let v = self.samples.entry(prop.to_string()).or_default();
        if v.len() < 3 {
            v.push(s());
        }
    }
    pub fn violation(&mut self, w: Witness) {
        let key = (w.prop.clone(), w.sig.clone());
        match self.viols.get_mut(&key) {
            Some(e) => e.count += 1,
            None => {
                self.viols.insert(key, VEntry { count: 1, first: w });
            }
        }
    }
    pub fn merge(&mut self, o: Acc) {
        self.evaluations += o.evaluations;
        self.primary += o.primary;
        self.cases += o.cases;
        for (k, v) in o.nontrivial {
            self.nontrivial.entry(k).or_default().extend(v);
        }
        for (k, v) in o.viols {
            match self.viols.get_mut(&k) {
                Some(e) => e.count += v.count,
                None => {
                    self.viols.insert(k, v);
                }
            }
        }
        for (k, v) in o.counters {
            *self.counters.entry(k).or_insert(0) += v;
        }
        for (k, v) in o.maxima {
            self.max(&k, v);
        }
        for (k, v) in o.sets {
            self.sets.entry(k).or_default().extend(v);
        }
        for (k, v) in o.samples {
            let e = self.samples.entry(k).or_default();
            for s in v {
                if e.len() < 4 {
                    e.push(s);
                }
            }
        }
        self.inconclusive.extend(o.inconclusive);
        self.export_lines.extend(o.export_lines);
    }
}

// ---------------------------------------------------------------- tiny JSON writer
pub fn jstr(s: &str) -> String {
    let mut o = String::with_capacity(s.len() + 2);
    o.push('"');
    for c in s.chars() {
        match c {
            '"' => o.push_str("\\\""),
            '\\' => o.push_str("\\\\"),
            '\n' => o.push_str("\\n"),
            '\r' => o.push_str("\\r"),
            '\t' => o.push_str("\\t"),
            c if (c as u32) < 0x20 => o.push_str(&format!("\\u{:04x}", c as u32)),
            c => o.push(c),
        }
    }
    o.push('"');
    o
}
pub fn jarr(items: &[String]) -> String {
    format!("[{}]", items.join(","))
}
pub fn jobj(items: &[(String, String)]) -> String {
    format!("{{{}}}", items.iter().map(|(k, v)| format!("{}:{}", jstr(k), v)).collect::<Vec<_>>().join(","))
}

impl Acc {
    /// machine-readable summary for the check script
    pub fn to_json(&self) -> String {
        let mut items: Vec<(String, String)> = vec![];
        items.push(("evaluations".into(), self.evaluations.to_string()));
        items.push(("primary".into(), self.primary.to_string()));
        items.push(("cases".into(), self.cases.to_string()));
        items.push((
            "nontrivial".into(),
            jobj(&self.nontrivial.iter().map(|(k, v)| (k.clone(), v.len().to_string())).collect::<Vec<_>>()),
        ));
        items.push(("counters".into(), jobj(&self.counters.iter().map(|(k, v)| (k.clone(), v.to_string())).collect::<Vec<_>>())));
        items.push(("maxima".into(), jobj(&self.maxima.iter().map(|(k, v)| (k.clone(), v.to_string())).collect::<Vec<_>>())));
        items.push((
            "sets".into(),
            jobj(
                &self
                    .sets
                    .iter()
                    .map(|(k, v)| {
                        (
                            k.clone(),
                            jobj(&[
                                ("size".to_string(), v.len().to_string()),
                                ("items".to_string(), jarr(&v.iter().take(400).map(|x| jstr(x)).collect::<Vec<_>>())),
                            ]),
                        )
                    })
                    .collect::<Vec<_>>(),
            ),
        ));
        items.push((
            "samples".into(),
            jobj(&self.samples.iter().map(|(k, v)| (k.clone(), jarr(&v.iter().map(|x| jstr(x)).collect::<Vec<_>>()))).collect::<Vec<_>>()),
        ));
        items.push(("inconclusive".into(), jarr(&self.inconclusive.iter().map(|x| jstr(x)).collect::<Vec<_>>())));
        let mut vs = vec![];
        for ((p, sig), e) in &self.viols {
            vs.push(jobj(&[
                ("property".to_string(), jstr(p)),
                ("signature".to_string(), jstr(sig)),
                ("rule".to_string(), jstr(&e.first.rule)),
                ("count".to_string(), e.count.to_string()),
                ("detail".to_string(), jstr(&e.first.detail)),
                ("replay_args".to_string(), jarr(&e.first.replay_args.iter().map(|x| jstr(x)).collect::<Vec<_>>())),
                ("trace".to_string(), jstr(&e.first.trace)),
            ]));
        }
        items.push(("violations".into(), jarr(&vs)));
        jobj(&items)
    }
}
