//! Scripted regression scenarios: the canonical witnesses of the findings
//! recorded in known_findings.json (all monitors on, several schedules each).
use crate::acc::*;
use crate::chain::*;
use crate::driver::*;
use crate::model::*;
use pypipegraph2::JobKind;
use std::collections::BTreeSet;

#[derive(Clone, Debug)]
pub enum Ed {
    Bump(&'static str, u32),
    Delete(&'static str),
    SetOuts(&'static str, Vec<&'static str>),
    Remove(&'static str),
    Uninput(&'static str, &'static str),
}

#[derive(Clone, Debug, Default)]
pub struct Step {
    pub edits: Vec<Ed>,
    /// bases of the jobs that fail when executed
    pub fail: Vec<&'static str>,
    pub abort_at: Option<usize>,
    pub fail_running_on_abort: bool,
}

pub struct Scenario {
    pub name: &'static str,
    pub about: &'static str,
    pub conv: Conv,
    /// (base, kind, outs, consumed names, dom)
    pub nodes: Vec<(&'static str, JobKind, Vec<&'static str>, Vec<&'static str>, u64)>,
    pub steps: Vec<Step>,
}

fn step() -> Step {
    Step::default()
}

pub fn all() -> Vec<Scenario> {
    use JobKind::*;
    vec![
        Scenario {
            name: "D1-abort-leaves-ready-set",
            about: "C10: up to date Out->Eph->Always, abort right after startup; the offered Always job must leave the ready set",
            conv: Conv::Plain,
            nodes: vec![("J0", Output, vec!["J0"], vec![], 1000), ("J1", Ephemeral, vec!["J1"], vec!["J0"], 1000), ("J2", Always, vec!["J2"], vec!["J1"], 1000), ("J3", Always, vec!["J3"], vec![], 1000)],
            steps: vec![step(), Step { abort_at: Some(0), ..step() }, Step { abort_at: Some(1), fail_running_on_abort: true, ..step() }],
        },
        Scenario {
            name: "D2-aborted-never-started-jobs-keep-records",
            about: "C09: abort before anything started must not drop the records of untouched jobs",
            conv: Conv::Plain,
            nodes: vec![("J0", Output, vec!["J0"], vec![], 1000), ("J1", Output, vec!["J1"], vec!["J0"], 1000), ("J2", Always, vec!["J2"], vec![], 1000), ("J3", Output, vec!["J3"], vec!["J1", "J2"], 1000)],
            steps: vec![step(), Step { edits: vec![Ed::Bump("J2", 1)], abort_at: Some(0), ..step() }, Step { abort_at: Some(2), ..step() }, step()],
        },
        Scenario {
            name: "D3-failed-ephemeral-without-own-record",
            about: "C06/C08: an Ephemeral that failed keeps per-dependency records but no own record; the next evaluation must re-execute it, not trip over it",
            conv: Conv::Plain,
            nodes: vec![("J9", Output, vec!["J9"], vec![], 1000), ("J0", Ephemeral, vec!["J0"], vec!["J9"], 1000), ("J8", Output, vec!["J8"], vec![], 1000), ("J1", Output, vec!["J1"], vec!["J0", "J8"], 1000), ("J2", Output, vec!["J2"], vec!["J0", "J8"], 1000)],
            steps: vec![step(), Step { edits: vec![Ed::Delete("J1")], fail: vec!["J0"], ..step() }, Step { edits: vec![Ed::Delete("J2")], fail: vec!["J0"], ..step() }, step(), step()],
        },
        Scenario {
            name: "D4-late-upstream-failure-reaches-decided-jobs",
            about: "C06: skipped Output whose Ephemeral upstream fails later, while the Output's dependants are already offered/running/finished",
            conv: Conv::Plain,
            nodes: vec![
                ("J0", Output, vec!["J0"], vec![], 1000),
                ("J1", Output, vec!["J1"], vec![], 1000),
                ("J2", Ephemeral, vec!["J2"], vec!["J1"], 1000),
                ("J5", Output, vec!["J5"], vec!["J2", "J0"], 1000),
                ("J6", Always, vec!["J6"], vec!["J5"], 1000),
                ("J7", Always, vec!["J7"], vec!["J2"], 1000),
                ("J8", Output, vec!["J8"], vec!["J5"], 1000),
                ("J9", Ephemeral, vec!["J9"], vec!["J5"], 1000),
                ("J10", Always, vec!["J10"], vec!["J9"], 1000),
            ],
            steps: vec![step(), Step { fail: vec!["J2"], ..step() }, step()],
        },
        Scenario {
            name: "D11-skipped-ephemeral-below-late-failure",
            about: "C07: Eph0 -> Out2 (<- Out1) -> Eph4 -> Out5 -> Out6, Out2 -> Out7, Eph0 -> Always3; Eph0 re-run for Always3 fails: every never-started job below it is upstream-failed, not skipped",
            conv: Conv::Plain,
            nodes: vec![
                ("J0", Ephemeral, vec!["J0"], vec![], 1000),
                ("J1", Output, vec!["J1"], vec![], 1000),
                ("J2", Output, vec!["J2"], vec!["J0", "J1"], 1000),
                ("J3", Always, vec!["J3"], vec!["J0"], 1000),
                ("J4", Ephemeral, vec!["J4"], vec!["J2"], 1000),
                ("J5", Output, vec!["J5"], vec!["J4"], 1000),
                ("J6", Output, vec!["J6"], vec!["J5"], 1000),
                ("J7", Output, vec!["J7"], vec!["J2"], 1000),
            ],
            steps: vec![step(), Step { fail: vec!["J0"], ..step() }, step()],
        },
        Scenario {
            name: "D5-textual-compare-of-ephemeral-records",
            about: "C15/C04: validated Ephemeral re-executed (new stamp) while another consumer was upstream-failed; that consumer must not be re-executed next time",
            conv: Conv::Stamped,
            nodes: vec![
                ("J0", Always, vec!["J0"], vec![], 1000),
                ("J1", Ephemeral, vec!["J1"], vec![], 1000),
                ("J2", Output, vec!["J2"], vec!["J0", "J1"], 1000),
                ("J3", Output, vec!["J3"], vec![], 1000),
                ("J4", Output, vec!["J4"], vec!["J1", "J3"], 1000),
            ],
            steps: vec![step(), Step { edits: vec![Ed::Bump("J0", 1), Ed::Delete("J3")], fail: vec!["J3"], ..step() }, step(), step()],
        },
        Scenario {
            name: "D6-ephemeral-requirement-not-transitive",
            about: "C02: E1->E2->O, E1->P, A->O; change A: E2 must not be offered while E1 was skipped",
            conv: Conv::Plain,
            nodes: vec![
                ("J0", Always, vec!["J0"], vec![], 1000),
                ("J1", Ephemeral, vec!["J1"], vec![], 1000),
                ("J2", Ephemeral, vec!["J2"], vec!["J1"], 1000),
                ("J3", Output, vec!["J3"], vec!["J1"], 1000),
                ("J4", Output, vec!["J4"], vec!["J2", "J0"], 1000),
            ],
            steps: vec![step(), Step { edits: vec![Ed::Bump("J0", 1)], ..step() }, Step { edits: vec![Ed::Bump("J0", 2)], ..step() }],
        },
        Scenario {
            name: "D6b-three-level-ephemeral-chain",
            about: "C02: E1->E2->E3->O, siblings at each level, late invalidation through an Always job",
            conv: Conv::Plain,
            nodes: vec![
                ("J0", Always, vec!["J0"], vec![], 1000),
                ("J1", Ephemeral, vec!["J1"], vec![], 1000),
                ("J2", Ephemeral, vec!["J2"], vec!["J1"], 1000),
                ("J3", Ephemeral, vec!["J3"], vec!["J2"], 1000),
                ("J4", Output, vec!["J4"], vec!["J1"], 1000),
                ("J5", Output, vec!["J5"], vec!["J2"], 1000),
                ("J6", Output, vec!["J6"], vec!["J3", "J0"], 1000),
            ],
            steps: vec![step(), Step { edits: vec![Ed::Bump("J0", 1)], ..step() }, Step { edits: vec![Ed::Bump("J0", 2), Ed::Delete("J5")], ..step() }],
        },
        Scenario {
            name: "D8-renamed-upstream-own-record-used",
            about: "C03/C01: a:::b re-run with changed a while d is upstream-failed; after the rename to a:::b:::c, d must be judged against what d consumed",
            conv: Conv::Prod,
            nodes: vec![
                ("i", Always, vec!["i"], vec![], 1000),
                ("a", Output, vec!["a", "b"], vec!["i"], 1000),
                ("x", Output, vec!["x"], vec![], 1000),
                ("d", Output, vec!["d"], vec!["a", "x"], 1000),
            ],
            steps: vec![
                step(),
                Step { edits: vec![Ed::Bump("i", 1), Ed::Delete("x")], fail: vec!["x"], ..step() },
                Step { edits: vec![Ed::SetOuts("a", vec!["a", "b", "c"])], ..step() },
                step(),
            ],
        },
        Scenario {
            name: "D9-superseded-records-vouch-again",
            about: "C18/C01: gain output c, change an input, lose c, change it back: the records of a:::b must not vouch for files written by a:::b:::c",
            conv: Conv::Prod,
            nodes: vec![("i", Always, vec!["i"], vec![], 1000), ("a", Output, vec!["a", "b"], vec!["i"], 1000), ("d", Output, vec!["d"], vec!["a"], 1000)],
            steps: vec![
                step(),
                Step { edits: vec![Ed::SetOuts("a", vec!["a", "b", "c"]), Ed::Bump("i", 1)], ..step() },
                Step { edits: vec![Ed::SetOuts("a", vec!["a", "b"]), Ed::Bump("i", 0)], ..step() },
                step(),
            ],
        },
        Scenario {
            name: "D10-renamed-validated-ephemeral",
            about: "C04: consumer of a renamed multi-output Ephemeral that is validated under its new id must not be re-executed",
            conv: Conv::Prod,
            nodes: vec![
                ("e", Ephemeral, vec!["e", "eb", "ec"], vec![], 1000),
                ("x", Output, vec!["x"], vec![], 1000),
                ("o", Output, vec!["o"], vec!["e", "x"], 1000),
                ("p", Output, vec!["p"], vec!["e"], 1000),
            ],
            steps: vec![
                step(),
                Step { edits: vec![Ed::SetOuts("e", vec!["e", "ec"]), Ed::Delete("x"), Ed::Delete("p")], fail: vec!["x"], ..step() },
                step(),
                step(),
            ],
        },
        Scenario {
            name: "D12-aborted-renamed-upstream-of-skipped-consumer",
            about: "C09/C11: e gained an output (new id) and ran while its consumer o was upstream-failed; next evaluation o is validated and skipped, then the run is aborted before e (delayed for its other consumer q) is decided: o's record of what it consumed from e must survive under the new id, or the resume rebuilds o",
            conv: Conv::Prod,
            nodes: vec![
                ("e", Ephemeral, vec!["e"], vec![], 1000),
                ("y", Output, vec!["y"], vec![], 1000),
                ("k", Output, vec!["k"], vec![], 1000),
                ("o", Output, vec!["o"], vec!["e", "y"], 1000),
                ("q", Output, vec!["q"], vec!["e", "k"], 1000),
            ],
            steps: vec![
                step(),
                Step { edits: vec![Ed::SetOuts("e", vec!["e", "eb"]), Ed::Delete("y")], fail: vec!["y"], ..step() },
                Step { edits: vec![Ed::Delete("k")], abort_at: Some(2), ..step() },
                step(),
            ],
        },
        Scenario {
            name: "shielding-and-reexecution",
            about: "C04: colliding outputs shield downstreams; on-demand ephemeral for an invalidated consumer",
            conv: Conv::Plain,
            nodes: vec![
                ("J0", Always, vec!["J0"], vec![], 1000),
                ("J1", Output, vec!["J1"], vec!["J0"], 1),
                ("J2", Output, vec!["J2"], vec!["J1"], 1000),
                ("J3", Ephemeral, vec!["J3"], vec!["J1"], 2),
                ("J4", Output, vec!["J4"], vec!["J3", "J0"], 1000),
            ],
            steps: vec![step(), Step { edits: vec![Ed::Bump("J0", 1)], ..step() }, Step { edits: vec![Ed::Delete("J2")], ..step() }, Step { edits: vec![Ed::Uninput("J3", "J4")], ..step() }],
        },
    ]
}

fn build(s: &Scenario, order_seed: u64) -> Project {
    let mut p = Project::empty(s.conv, order_seed);
    for (i, (base, kind, outs, inputs, dom)) in s.nodes.iter().enumerate() {
        p.g.nodes.push(Node {
            id: String::new(),
            base: base.to_string(),
            outs: outs.iter().map(|x| x.to_string()).collect(),
            inputs: inputs.iter().map(|x| x.to_string()).collect(),
            kind: *kind,
            ver: 0,
            dom: *dom,
            rank: i as u32,
        });
    }
    p.next_rank = s.nodes.len() as u32;
    p.g.rebuild();
    p
}

fn apply(p: &mut Project, e: &Ed) -> String {
    match e {
        Ed::Bump(b, v) => {
            if let Some(n) = p.g.nodes.iter_mut().find(|n| n.base == *b) {
                n.ver = *v;
            }
        }
        Ed::Delete(name) => {
            p.world.borrow_mut().disk.remove(*name);
        }
        Ed::SetOuts(b, outs) => {
            if let Some(n) = p.g.nodes.iter_mut().find(|n| n.base == *b) {
                n.outs = outs.iter().map(|x| x.to_string()).collect();
            }
        }
        Ed::Remove(b) => {
            if let Some(i) = p.g.nodes.iter().position(|n| n.base == *b) {
                let n = p.g.nodes.remove(i);
                for c in p.g.nodes.iter_mut() {
                    for o in &n.outs {
                        c.inputs.remove(o);
                    }
                }
            }
        }
        Ed::Uninput(name, b) => {
            if let Some(n) = p.g.nodes.iter_mut().find(|n| n.base == *b) {
                n.inputs.remove(*name);
            }
        }
    }
    p.g.rebuild();
    format!("{:?}", e)
}

pub fn run_scenario(s: &Scenario, acc: &mut Acc, verbose: bool) {
    // PPGMON_SCHEDULES: fewer schedules per scenario (used by the Miri self-check, where one evaluation costs seconds)
    let nsched: u64 = std::env::var("PPGMON_SCHEDULES").ok().and_then(|x| x.parse().ok()).unwrap_or(12);
    for sched in 0..nsched {
        let mut cfg = ChainCfg::new(s.conv, Family::Random, 0);
        cfg.verbose = false;
        let mut p = build(s, sched);
        let mut st = ChainState::new();
        acc.cases += 1;
        for (i, stp) in s.steps.iter().enumerate() {
            let edits: Vec<String> = stp.edits.iter().map(|e| apply(&mut p, e)).collect();
            let mut rng = Rng::derive(sched, &[9, i as u64]);
            let fail: BTreeSet<String> = stp.fail.iter().filter_map(|b| p.g.nodes.iter().find(|n| n.base == *b).map(|n| n.id.clone())).collect();
            let plan = Plan {
                fail,
                abort_at: stp.abort_at,
                fail_running_on_abort: stp.fail_running_on_abort,
                max_parallel: 1 + (sched as usize % 3),
                cleanup: if sched % 2 == 0 { Cleanup::Random(0.0) } else { Cleanup::AtEnd },
                garbage_on_fail: sched % 4 >= 2,
                sched_seed: rng.next(),
                ..Default::default()
            };
            let args = vec!["one".to_string(), "scenario".to_string(), s.name.to_string()];
            if !eval_step(&mut p, &cfg, sched, i, edits, plan, acc, &mut st, args) {
                break;
            }
        }
        if verbose {
            println!("---- schedule seed {}\n{}", sched, st.trace.join(""));
        }
    }
}

pub fn run_all(acc: &mut Acc, verbose: bool) {
    for s in all() {
        run_scenario(&s, acc, verbose);
        acc.count("regression_scenarios", 1);
    }
}

pub fn run_one(name: &str, acc: &mut Acc, verbose: bool) {
    for s in all() {
        if s.name == name {
            println!("scenario {}: {}", s.name, s.about);
            run_scenario(&s, acc, verbose);
        }
    }
}
