//! The monitored driver: runs ONE evaluation of the real engine through its
//! public call protocol, observing after every call. Online monitors live here.
use crate::model::*;
use pypipegraph2::verif::{JobOutputResult, Snapshot, VerifStrategy};
use pypipegraph2::{JobKind, PPGEvaluator, PPGEvaluatorError};
use std::cell::RefCell;
use std::collections::{BTreeMap, BTreeSet};
use std::panic::{catch_unwind, AssertUnwindSafe};
use std::rc::Rc;

pub type Ev = PPGEvaluator<VerifStrategy>;

#[derive(Clone, Debug, PartialEq)]
pub enum Cleanup {
    /// each offered cleanup is withheld from the action list with this probability per step
    Random(f64),
    /// acknowledge as soon as offered (forced action, no choice point)
    Immediate,
    /// acknowledge only when nothing else can be done
    AtEnd,
}

#[derive(Clone, Debug, PartialEq)]
pub enum Misuse {
    Off,
    Random(f64),
    Every,
}

#[derive(Clone, Debug)]
pub struct Plan {
    pub fail: BTreeSet<String>,
    pub abort_at: Option<usize>,
    pub fail_running_on_abort: bool,
    pub max_parallel: usize,
    pub cleanup: Cleanup,
    pub garbage_on_fail: bool,
    pub inject: BTreeSet<String>,
    pub misuse: Misuse,
    pub use_next_job: bool,
    pub sched_seed: u64,
    /// record a structured call trace (for the PyO3 boundary replay)
    pub trace: bool,
    /// take the history as soon as the evaluation is finished, before cleanups that are still on offer are
    /// acknowledged (and once more afterwards: it must not depend on when cleanups are acknowledged)
    pub history_before_late_acks: bool,
    /// call abort_remaining() once more after the evaluation has finished on its own (a driver that is interrupted at
    /// the very end): it must succeed and change nothing
    pub abort_when_finished: bool,
}
impl Default for Plan {
    fn default() -> Self {
        Plan {
            fail: BTreeSet::new(),
            abort_at: None,
            fail_running_on_abort: false,
            max_parallel: 1,
            cleanup: Cleanup::Random(0.0),
            garbage_on_fail: false,
            inject: BTreeSet::new(),
            misuse: Misuse::Off,
            use_next_job: false,
            sched_seed: 0,
            trace: false,
            history_before_late_acks: false,
            abort_when_finished: false,
        }
    }
}
impl Plan {
    pub fn brief(&self) -> String {
        format!(
            "fail={:?} abort_at={:?}/{} par={} cleanup={:?} garbage={} inject={:?} misuse={:?} next={} sched={}",
            self.fail, self.abort_at, self.fail_running_on_abort, self.max_parallel, self.cleanup, self.garbage_on_fail,
            self.inject, self.misuse, self.use_next_job, self.sched_seed
        )
    }
}

pub enum Chooser {
    Random(Rng),
    /// follow `prefix`, afterwards always take alternative 0
    Explicit { prefix: Vec<usize>, pos: usize },
}
impl Chooser {
    fn choose(&mut self, n: usize, trace: &mut Vec<(usize, usize)>) -> usize {
        let c = match self {
            Chooser::Random(r) => r.below(n),
            Chooser::Explicit { prefix, pos } => {
                let c = if *pos < prefix.len() { prefix[*pos].min(n - 1) } else { 0 };
                *pos += 1;
                c
            }
        };
        trace.push((c, n));
        c
    }
}

#[derive(Clone, Debug)]
pub struct Violation {
    pub prop: &'static str,
    pub rule: &'static str,
    pub sig: String,
    pub detail: String,
}

#[derive(Clone, Debug, Default)]
pub struct Report {
    pub started: Vec<String>,
    pub succeeded: BTreeMap<String, String>,
    pub failed: BTreeSet<String>,           // reported failed by the driver, or rejected (EphemeralChangedOutput)
    pub rejected: BTreeSet<String>,         // EphemeralChangedOutput
    pub running_at_abort: BTreeSet<String>, // were running at abort and not reported failed
    pub aborted: bool,
    pub abort_had_offered: usize,
    pub abort_had_running: usize,
    pub errors: Vec<String>,
    pub final_snap: Option<Snapshot>,
    pub upstream_failed: BTreeSet<String>,
    pub failed_q: BTreeSet<String>,
    pub history_out: Option<History>,
    pub cleanup_offered: BTreeSet<String>,
    pub cleanup_acked: BTreeSet<String>,
    pub violations: Vec<Violation>,
    pub log: Vec<String>,
    pub choices: Vec<(usize, usize)>,
    pub max_depth: u32,
    pub max_running: usize,
    pub out_of_order_completion: bool,
    pub steps: usize,
    /// records the engine reported for the direct upstreams when a job was started
    pub inputs_seen: BTreeMap<String, BTreeMap<String, Option<String>>>,
    /// the world's value of every consumed name when the job was started
    pub consumed_seen: BTreeMap<String, BTreeMap<String, String>>,
    /// job -> observation index of first offer
    pub first_offer: BTreeMap<String, usize>,
    pub bad_since: BTreeMap<String, usize>,
    pub finished_since: BTreeMap<String, usize>,
    /// distinct observation vectors (abstracted by kind), transition pairs
    pub obs_vectors: BTreeSet<String>,
    pub transition_pairs: BTreeSet<(String, String)>,
    pub misuse_pairs: BTreeSet<(String, &'static str)>,
    pub misuse_calls: usize,
    pub observations: usize,
    pub fatal: bool,
    /// a validated on-demand ephemeral upstream was present when a job started: (consumer, chain length)
    pub ondemand_eph_starts: usize,
    pub ondemand_eph_chain: usize,
    pub detected_injections: BTreeSet<String>,
    pub cleanup_multi_down: usize,
    /// structured call trace (JSON objects), only with Plan.trace
    pub trace: Vec<String>,
    /// most signals the engine handled inside one call, and that number relative to jobs + edges (x100)
    pub max_signals: u64,
    /// history taken while cleanups were still on offer (Plan.history_before_late_acks)
    pub history_early: Option<History>,
}

impl Report {
    pub fn started_set(&self) -> BTreeSet<String> {
        self.started.iter().cloned().collect()
    }
    pub fn interrupted(&self) -> bool {
        !self.failed.is_empty() || self.aborted
    }
    /// final disposition by the engine's own predicates + the driver's knowledge
    pub fn disposition(&self, id: &str) -> &'static str {
        let snap = match &self.final_snap {
            Some(s) => s,
            None => return "?",
        };
        let j = match snap.jobs.iter().find(|j| j.job_id == id) {
            Some(j) => j,
            None => return "?",
        };
        if !j.finished {
            "unfinished"
        } else if self.failed_q.contains(id) {
            "failed"
        } else if j.upstream_failed {
            "upf"
        } else if j.failed {
            "aborted"
        } else if self.succeeded.contains_key(id) {
            "exec"
        } else {
            "skip"
        }
    }
    pub fn state_str(&self, id: &str) -> String {
        self.final_snap
            .as_ref()
            .and_then(|s| s.jobs.iter().find(|j| j.job_id == id).map(|j| j.state.clone()))
            .unwrap_or_else(|| "?".into())
    }
}

pub fn err_str(e: &PPGEvaluatorError) -> String {
    match e {
        PPGEvaluatorError::APIError(m) => format!("APIError:{}", m),
        PPGEvaluatorError::InternalError(m) => format!("InternalError:{}", m),
        PPGEvaluatorError::EphemeralChangedOutput { job_id, .. } => {
            format!("EphemeralChangedOutput:{}", job_id)
        }
    }
}

pub fn guarded<R>(f: impl FnOnce() -> R) -> Result<R, String> {
    catch_unwind(AssertUnwindSafe(f)).map_err(|p| {
        if let Some(s) = p.downcast_ref::<String>() {
            format!("PANIC:{}", s)
        } else if let Some(s) = p.downcast_ref::<&str>() {
            format!("PANIC:{}", s)
        } else {
            "PANIC:?".to_string()
        }
    })
}

/// call-site signature of an engine error: message with job ids removed and the
/// variable tail (history payloads, generation counters) cut off
pub fn error_sig(g: &Graph, msg: &str) -> String {
    let mut m = msg.to_string();
    let mut ids: Vec<&str> = g.nodes.iter().map(|n| n.id.as_str()).collect();
    ids.sort_by_key(|x| std::cmp::Reverse(x.len()));
    for id in ids {
        m = m.replace(&format!("\"{}\"", id), "\"_\"");
        m = m.replace(&format!("'{}'", id), "'_'");
    }
    if let Some(i) = m.find(", history_output") {
        m.truncate(i);
    }
    let m: String = m.chars().take(140).collect();
    m
}

/// Logical step bound per engine call (C05 / C19): the number of signals one call handles is a small multiple of
/// jobs + dependencies on the unchanged tree (measured maximum: see evidence `max_signals_per_call_x100_per_size`);
/// the budget is far above it, so only a run-away (super-linear blow-up, endless loop) reaches it.
pub fn signal_budget(g: &Graph) -> u64 {
    2000 + 400 * (g.nodes.len() as u64 + g.edges.len() as u64)
}

fn fingerprint(ev: &Ev, g: &Graph) -> String {
    let s = ev.verif_snapshot();
    let mut q: Vec<Vec<String>> = vec![
        ev.query_ready_to_run().into_iter().collect(),
        ev.query_jobs_running().into_iter().collect(),
        ev.query_ready_for_cleanup().into_iter().collect(),
        ev.query_failed().into_iter().collect(),
        ev.query_upstream_failed().into_iter().collect(),
    ];
    for v in q.iter_mut() {
        v.sort();
    }
    let mut outs = vec![];
    for n in &g.nodes {
        outs.push(match ev.get_job_output(&n.id) {
            JobOutputResult::Done(o) => format!("D{}", o),
            JobOutputResult::NoSuchJob => "X".into(),
            JobOutputResult::NotDone => "N".into(),
        });
    }
    format!("{:?} {:?} {:?}", s, q, outs)
}

struct Drv<'a> {
    g: &'a Graph,
    plan: &'a Plan,
    mode: CmpMode,
    world: Rc<RefCell<World>>,
    ev: Ev,
    rep: Report,
    running: BTreeMap<String, Vec<(String, String)>>, // id -> captured used (name,value)
    start_order: Vec<String>,
    prev_ready: BTreeSet<String>,
    prev_cleanup: BTreeSet<String>,
    was_finished: BTreeSet<String>,
    did_abort: bool,
    kinds: BTreeMap<String, JobKind>,
    // last observation
    ready: BTreeSet<String>,
    cleanup: BTreeSet<String>,
    finished: bool,
    snap: Option<Snapshot>,
    reference_uptodate: Option<&'a BTreeMap<String, bool>>,
}

macro_rules! viol {
    ($d:expr, $p:expr, $rule:expr, $sig:expr, $($arg:tt)*) => {
        $d.rep.violations.push(Violation { prop: $p, rule: $rule, sig: format!("{}|{}", $rule, $sig), detail: format!($($arg)*) })
    };
}

impl<'a> Drv<'a> {
    fn kc(&self, id: &str) -> char {
        kind_char(self.kinds[id])
    }
    fn state_of(&self, id: &str) -> String {
        self.snap
            .as_ref()
            .and_then(|s| s.jobs.iter().find(|j| j.job_id == id).map(|j| j.state.clone()))
            .unwrap_or_default()
    }

    /// run one guarded engine call; classify its result
    fn call(&mut self, name: String, f: impl FnOnce(&mut Ev) -> Result<(), PPGEvaluatorError>) -> Result<(), String> {
        let disk_at_call: Vec<String> = if self.plan.trace { self.world.borrow().disk.keys().cloned().chain(self.world.borrow().leftover.iter().cloned()).collect() } else { vec![] };
        let r = self.call_inner(name.clone(), f);
        if self.plan.trace {
            let res = match &r {
                Ok(()) => "ok",
                Err(s) if s.starts_with("APIError") => "api",
                Err(s) if s.starts_with("InternalError") => "internal",
                Err(s) if s.starts_with("EphemeralChangedOutput") => "ephchanged",
                Err(_) => "panic",
            };
            let mut it = name.splitn(3, ' ');
            let op = it.next().unwrap_or("").to_string();
            let job = it.next().unwrap_or("").to_string();
            let rec = it.next().unwrap_or("").to_string();
            let post = self.post_state_json();
            self.rep.trace.push(format!(
                "{{\"op\":{},\"job\":{},\"rec\":{},\"res\":{},\"disk\":{},{}}}",
                crate::acc::jstr(&op),
                crate::acc::jstr(&job),
                crate::acc::jstr(&rec),
                crate::acc::jstr(res),
                crate::acc::jarr(&disk_at_call.iter().map(|x| crate::acc::jstr(x)).collect::<Vec<_>>()),
                post
            ));
        }
        r
    }

    /// what the PyO3 wrapper can observe as well: the query results after a call
    fn post_state_json(&mut self) -> String {
        let js = |v: std::collections::HashSet<String>| {
            let mut v: Vec<String> = v.into_iter().collect();
            v.sort();
            crate::acc::jarr(&v.iter().map(|x| crate::acc::jstr(x)).collect::<Vec<_>>())
        };
        let ev = &mut self.ev;
        match guarded(|| (ev.query_ready_to_run(), ev.query_jobs_running(), ev.query_ready_for_cleanup(), ev.query_upstream_failed(), ev.is_finished())) {
            Ok((r, q, c, u, f)) => format!("\"ready\":{},\"running\":{},\"cleanup\":{},\"upf\":{},\"finished\":{}", js(r), js(q), js(c), js(u), f),
            Err(_) => "\"ready\":null".to_string(),
        }
    }

    fn call_inner(&mut self, name: String, f: impl FnOnce(&mut Ev) -> Result<(), PPGEvaluatorError>) -> Result<(), String> {
        self.rep.log.push(name.clone());
        let ev = &mut self.ev;
        pypipegraph2::verif::take_signal_count();
        let res = guarded(|| f(ev));
        let nsig = pypipegraph2::verif::take_signal_count();
        self.rep.max_signals = self.rep.max_signals.max(nsig);
        match res {
            Ok(Ok(())) => Ok(()),
            Ok(Err(e)) => {
                let s = err_str(&e);
                if let PPGEvaluatorError::EphemeralChangedOutput { .. } = e {
                    // documented error; judged by the caller (C16)
                } else {
                    let kind = if let PPGEvaluatorError::APIError(_) = e { "APIError" } else { "InternalError" };
                    let what = name.split(' ').next().unwrap_or("").to_string();
                    self.rep.errors.push(format!("{} -> {}", name, s));
                    let sig = error_sig(self.g, &s);
                    viol!(self, "C06", "call-error", format!("{}:{}", kind, sig), "{} -> {}", what, s);
                    self.rep.fatal = true;
                    // the error leaves the evaluation stuck: not finished, nothing ready, nothing running (C05)
                    let ev = &mut self.ev;
                    if let Ok((fin, r, q)) = guarded(|| (ev.is_finished(), ev.query_ready_to_run(), ev.query_jobs_running())) {
                        if !fin && r.is_empty() && q.is_empty() {
                            viol!(self, "C05", "stall", format!("after-error:{}", kind), "after {} -> {} the evaluation is not finished, nothing is ready and nothing is running", what, s);
                        }
                    }
                }
                self.rep.log.push(format!("  => {}", s));
                Err(s)
            }
            Err(p) if p.contains("verif: signal budget exceeded") => {
                // not a panic of the engine: the monitor's logical step bound stopped a run-away call
                self.rep.errors.push(format!("{} -> {}", name, p));
                let what = name.split(' ').next().unwrap_or("").to_string();
                viol!(self, "C05", "signal-budget-exceeded", what, "{}: the engine handled more than {} signals inside this one call ({} jobs, {} dependencies) - it does not terminate in a bounded number of steps", name, signal_budget(self.g), self.g.nodes.len(), self.g.edges.len());
                self.rep.fatal = true;
                self.rep.log.push(format!("  => {}", p));
                Err(p)
            }
            Err(p) => {
                self.rep.errors.push(format!("{} -> {}", name, p));
                let sig = error_sig(self.g, &p);
                viol!(self, "C06", "call-panic", sig, "{} -> {}", name, p);
                self.rep.fatal = true;
                self.rep.log.push(format!("  => {}", p));
                Err(p)
            }
        }
    }

    /// observation after every API call: queries, snapshot, transition log -> online monitors
    fn observe(&mut self) {
        let obs_idx = self.rep.observations;
        self.rep.observations += 1;
        let snap: Snapshot = self.ev.verif_snapshot();
        let ready: BTreeSet<String> = self.ev.query_ready_to_run().into_iter().collect();
        let run_q: BTreeSet<String> = self.ev.query_jobs_running().into_iter().collect();
        let cleanup: BTreeSet<String> = self.ev.query_ready_for_cleanup().into_iter().collect();
        let failed_q: BTreeSet<String> = self.ev.query_failed().into_iter().collect();
        let upf_q: BTreeSet<String> = self.ev.query_upstream_failed().into_iter().collect();
        let finished = self.ev.is_finished();
        let started: BTreeSet<String> = self.rep.started.iter().cloned().collect();

        // ---- transition log (intermediate states inside the last call)
        for t in pypipegraph2::verif::take_transitions() {
            self.rep.transition_pairs.insert((t.from.clone(), t.to.clone()));
            if t.from_finished && !t.to_finished {
                viol!(self, "C17", "finished-to-unfinished", format!("{}->{}", t.from, t.to), "{} {} -> {}", t.job_id, t.from, t.to);
            }
            if t.from_kind != t.to_kind {
                viol!(self, "C17", "kind-change", format!("{}->{}", t.from, t.to), "{} {} -> {}", t.job_id, t.from, t.to);
            }
            if t.from_finished && !t.from_failed && t.to_failed && started.contains(&t.job_id) {
                viol!(self, "C17", "success-to-failed", format!("{}->{}", t.from, t.to), "{} {} -> {}", t.job_id, t.from, t.to);
            }
        }
        if snap.pending_signals != 0 {
            viol!(self, "C17", "pending-signals", "", "{} signals pending between calls", snap.pending_signals);
        }
        // ---- C17 consistency of the reported sets
        let drv_running: BTreeSet<String> = self.running.keys().cloned().collect();
        if run_q != drv_running {
            viol!(self, "C17", "running-set", "", "running set {:?} != driver's {:?}", run_q, drv_running);
        }
        for j in ready.intersection(&run_q) {
            viol!(self, "C17", "ready-and-running", self.kc(j), "{} both ready and running", j);
        }
        let by_id: BTreeMap<&str, &pypipegraph2::verif::JobSnap> = snap.jobs.iter().map(|j| (j.job_id.as_str(), j)).collect();
        for j in &ready {
            if started.contains(j) {
                viol!(self, "C17", "offered-after-start", self.kc(j), "{} offered although already started ({})", j, by_id[j.as_str()].state);
            }
            if by_id[j.as_str()].finished {
                viol!(self, "C17", "offered-finished", self.kc(j), "{} offered although finished ({})", j, by_id[j.as_str()].state);
            }
            if !self.prev_ready.contains(j) && self.rep.first_offer.contains_key(j) {
                viol!(self, "C17", "offered-twice", self.kc(j), "{} offered a second time", j);
            }
        }
        let prev_ready = self.prev_ready.clone();
        for j in prev_ready.iter() {
            if !ready.contains(j) && !started.contains(j) && !self.did_abort {
                viol!(self, "C17", "offer-withdrawn", self.kc(j), "offer of {} withdrawn ({})", j, by_id[j.as_str()].state);
            }
        }
        // the single-job form of the ready report agrees with the set form
        match self.ev.next_job_ready_to_run() {
            Some(j) => {
                if !ready.contains(&j) {
                    viol!(self, "C17", "next-job-not-in-ready-set", "", "next_job_ready_to_run() = {} which query_ready_to_run() {:?} does not contain", j, ready);
                }
            }
            None => {
                if !ready.is_empty() {
                    viol!(self, "C17", "next-job-none-but-ready-set-nonempty", "", "next_job_ready_to_run() = None although query_ready_to_run() = {:?}", ready);
                }
            }
        }
        let all_finished = snap.jobs.iter().all(|j| j.finished);
        if finished != all_finished {
            viol!(self, "C17", "is-finished-mismatch", "", "is_finished()={} but all jobs finished={}", finished, all_finished);
        }
        for j in snap.jobs.iter() {
            let id = &j.job_id;
            if self.was_finished.contains(id) && !j.finished {
                viol!(self, "C17", "unfinished-again", j.state.clone(), "{} was finished, now {}", id, j.state);
            }
            if j.finished {
                self.was_finished.insert(id.clone());
                self.rep.finished_since.entry(id.clone()).or_insert(obs_idx);
            }
            if self.kinds[id] != j.kind {
                viol!(self, "C17", "kind-change-snapshot", "", "{} declared {:?} reported {:?}", id, self.kinds[id], j.kind);
            }
            if self.rep.succeeded.contains_key(id) && !self.rep.failed.contains(id) && (failed_q.contains(id) || upf_q.contains(id) || j.failed) {
                viol!(self, "C17", "succeeded-now-failed", j.state.clone(), "{} succeeded but is now {}", id, j.state);
            }
            if started.contains(id) && upf_q.contains(id) {
                viol!(self, "C07", "started-upstream-failed", j.state.clone(), "started job {} reported upstream failed", id);
            }
            if upf_q.contains(id) != j.upstream_failed {
                viol!(self, "C17", "upf-query-mismatch", "", "{} query_upstream_failed disagrees with state {}", id, j.state);
            }
            if (failed_q.contains(id) || upf_q.contains(id)) && !(j.finished && j.failed) {
                viol!(self, "C17", "failed-not-finished", j.state.clone(), "{} reported failed/upf but state {}", id, j.state);
            }
            if failed_q.contains(id) || upf_q.contains(id) {
                self.rep.bad_since.entry(id.clone()).or_insert(obs_idx);
            }
        }
        if failed_q != self.rep.failed {
            viol!(self, "C17", "failed-set", "", "failed set {:?} != driver's {:?}", failed_q, self.rep.failed);
        }
        // ---- C13 cleanup automaton
        for j in &cleanup {
            if !self.rep.succeeded.contains_key(j) || self.rep.failed.contains(j) || self.kinds[j] != JobKind::Ephemeral {
                viol!(self, "C13", "cleanup-not-succeeded-ephemeral", self.kc(j), "cleanup offered for {} ({})", j, by_id[j.as_str()].state);
            }
            if self.rep.cleanup_acked.contains(j) {
                viol!(self, "C13", "cleanup-offered-again", "", "cleanup of {} offered again after acknowledgement", j);
                viol!(self, "C17", "cleanup-set-disagrees-with-events", "offered-after-ack", "{} reported ready for cleanup although the driver has acknowledged its cleanup", j);
            }
            if !self.rep.cleanup_offered.contains(j) {
                let mut fin_steps = BTreeSet::new();
                for e in self.g.downs(j) {
                    let d = by_id[e.down.as_str()];
                    if !d.finished {
                        viol!(self, "C13", "cleanup-before-downstream-finished", d.state.clone(), "cleanup of {} offered while downstream {} in {}", j, e.down, d.state);
                    } else if d.failed {
                        viol!(self, "C13", "cleanup-despite-failed-downstream", d.state.clone(), "cleanup of {} offered though downstream {} in {}", j, e.down, d.state);
                    }
                    fin_steps.insert(self.rep.finished_since.get(&e.down).cloned().unwrap_or(0));
                }
                if fin_steps.len() >= 2 {
                    self.rep.cleanup_multi_down += 1;
                }
                self.rep.cleanup_offered.insert(j.clone());
            }
        }
        let prev_cleanup = self.prev_cleanup.clone();
        for j in prev_cleanup.iter() {
            if !cleanup.contains(j) && !self.rep.cleanup_acked.contains(j) {
                viol!(self, "C13", "cleanup-offer-withdrawn", "", "cleanup offer of {} withdrawn without acknowledgement", j);
                viol!(self, "C17", "cleanup-set-disagrees-with-events", "withdrawn", "{} was reported ready for cleanup, no acknowledgement was delivered, and it is no longer reported", j);
            }
        }
        // ---- C07: upstream failed only with a failed/upf direct upstream
        for j in &upf_q {
            let ok = self.g.ups(j).iter().any(|e| failed_q.contains(&e.up) || upf_q.contains(&e.up));
            if !ok {
                viol!(self, "C07", "upf-without-failed-upstream", self.kc(j), "{} upstream-failed but no direct upstream failed/upf", j);
            }
        }
        // ---- first offers: C07 + C02
        for j in &ready {
            if self.prev_ready.contains(j) {
                continue;
            }
            self.rep.first_offer.entry(j.clone()).or_insert(obs_idx);
            for e in self.g.ups(j) {
                let u = by_id[e.up.as_str()];
                if failed_q.contains(&e.up) || upf_q.contains(&e.up) {
                    viol!(self, "C07", "offered-despite-failed-upstream", format!("{}<-{}", self.kc(j), u.state), "{} newly offered though direct upstream {} is {}", j, e.up, u.state);
                }
                if !u.finished || u.failed {
                    viol!(self, "C02", "offered-upstream-not-done", format!("{}<-{}", self.kc(j), u.state), "{} newly offered but upstream {} in {}", j, e.up, u.state);
                }
            }
            self.check_inputs_materialised(j, "at-offer", &by_id);
        }
        // ---- C05 progress
        if finished {
            if !ready.is_empty() || !run_q.is_empty() {
                viol!(self, "C05", "finished-but-active", "", "finished but ready {:?} running {:?}", ready, run_q);
            }
        } else if ready.is_empty() && run_q.is_empty() && self.running.is_empty() {
            let st: Vec<String> = snap.jobs.iter().filter(|j| !j.finished).map(|j| format!("{}={}", j.job_id, j.state)).collect();
            let mut kinds: Vec<String> = snap.jobs.iter().filter(|j| !j.finished).map(|j| j.state.clone()).collect();
            kinds.sort();
            kinds.dedup();
            viol!(self, "C05", "stall", kinds.join(","), "not finished, nothing ready or running; unfinished: {:?}", st);
            self.rep.fatal = true;
        }
        // ---- coverage: observation vector abstracted by kind
        {
            let cnt = |s: &BTreeSet<String>| -> String {
                let mut c = [0usize; 3];
                for j in s {
                    c[match self.kinds[j] {
                        JobKind::Always => 0,
                        JobKind::Output => 1,
                        JobKind::Ephemeral => 2,
                    }] += 1;
                }
                format!("{}{}{}", c[0].min(3), c[1].min(3), c[2].min(3))
            };
            let v = format!("r{} u{} c{} f{} p{} fin{}", cnt(&ready), cnt(&run_q), cnt(&cleanup), cnt(&failed_q), cnt(&upf_q), finished as u8);
            self.rep.obs_vectors.insert(v);
        }
        self.rep.max_running = self.rep.max_running.max(self.running.len());
        self.prev_ready = ready.clone();
        self.prev_cleanup = cleanup.clone();
        self.ready = ready;
        self.cleanup = cleanup;
        self.finished = finished;
        self.rep.upstream_failed = upf_q;
        self.rep.failed_q = failed_q;
        self.snap = Some(snap);
    }

    /// the physical half of C02: every consumed name readable, engine can report upstream's output
    fn check_inputs_materialised(&mut self, j: &str, when: &'static str, by_id: &BTreeMap<&str, &pypipegraph2::verif::JobSnap>) {
        for e in self.g.ups(j) {
            let ukind = self.kinds[&e.up];
            let ustate = by_id.get(e.up.as_str()).map(|x| x.state.clone()).unwrap_or_default();
            let reported = match self.ev.get_job_output(&e.up) {
                JobOutputResult::Done(o) => Some(parse_rec(&o)),
                _ => {
                    viol!(self, "C02", "upstream-output-not-reportable", format!("{}:{}:{}", when, kind_char(ukind), ustate), "{} {}: engine cannot report output of upstream {} ({})", j, when, e.up, ustate);
                    None
                }
            };
            if ukind == JobKind::Ephemeral && self.rep.cleanup_offered.contains(&e.up) {
                viol!(self, "C02", "ephemeral-upstream-already-offered-for-cleanup", when, "{} {} but ephemeral upstream {} already offered for cleanup", j, when, e.up);
            }
            for name in &e.names {
                let val = {
                    let w = self.world.borrow();
                    match ukind {
                        JobKind::Output => w.disk.get(name).cloned(),
                        JobKind::Ephemeral => w.temp.get(name).cloned(),
                        JobKind::Always => w.mem.get(name).cloned(),
                    }
                };
                match &val {
                    None => {
                        viol!(self, "C02", "input-not-materialised", format!("{}:{}:{}", when, kind_char(ukind), ustate), "{} {} but {} of upstream {} ({:?}, {}) is not materialised", j, when, name, e.up, ukind, ustate)
                    }
                    Some(v) => {
                        if let Some(r) = &reported {
                            if r.get(name) != Some(v) {
                                viol!(self, "C02", "reported-output-differs-from-world", format!("{}:{}:{}", when, kind_char(ukind), ustate), "{} {}: engine reports {:?} for {} of {} but the world has {}", j, when, r.get(name), name, e.up, v);
                            }
                        }
                    }
                }
            }
        }
    }

    fn misuse_round(&mut self, phase: &'static str) {
        let g = self.g;
        let before = fingerprint(&self.ev, g);
        let snap = self.ev.verif_snapshot();
        let states: BTreeMap<String, String> = snap.jobs.iter().map(|j| (j.job_id.clone(), j.state.clone())).collect();
        let ready: BTreeSet<String> = self.ev.query_ready_to_run().into_iter().collect();
        let run_q: BTreeSet<String> = self.ev.query_jobs_running().into_iter().collect();
        let cleanup: BTreeSet<String> = self.ev.query_ready_for_cleanup().into_iter().collect();
        pypipegraph2::verif::take_transitions();
        let mut tries: Vec<(&'static str, String, String, Result<Result<(), PPGEvaluatorError>, String>)> = vec![];
        for n in &g.nodes {
            let j = &n.id;
            let ev = &mut self.ev;
            if !ready.contains(j) {
                tries.push(("start", j.clone(), String::new(), guarded(|| ev.event_now_running(j))));
            }
            if !run_q.contains(j) {
                tries.push(("success", j.clone(), "X=1".to_string(), guarded(|| ev.event_job_finished_success(j, "X=1".to_string()))));
                // the same illegal report carrying exactly the output the engine has on record for the job
                if let JobOutputResult::Done(cur) = ev.get_job_output(j) {
                    let c2 = cur.clone();
                    tries.push(("success-same", j.clone(), cur, guarded(|| ev.event_job_finished_success(j, c2))));
                }
                tries.push(("failure", j.clone(), String::new(), guarded(|| ev.event_job_finished_failure(j))));
            }
            if !cleanup.contains(j) {
                tries.push(("cleanup", j.clone(), String::new(), guarded(|| ev.event_job_cleanup_done(j))));
            }
        }
        if phase != "before-startup" {
            let ev = &mut self.ev;
            tries.push(("startup", String::new(), String::new(), guarded(|| ev.event_startup())));
        }
        if self.plan.trace {
            let disk: Vec<String> = self.world.borrow().disk.keys().cloned().chain(self.world.borrow().leftover.iter().cloned()).collect();
            let t: Vec<String> = tries.iter().map(|(w, j, pl, _)| format!("[{},{},{}]", crate::acc::jstr(w), crate::acc::jstr(j), crate::acc::jstr(pl))).collect();
            let post = self.post_state_json();
            self.rep.trace.push(format!("{{\"op\":\"misuse\",\"tries\":{},\"disk\":{},{}}}", crate::acc::jarr(&t), crate::acc::jarr(&disk.iter().map(|x| crate::acc::jstr(x)).collect::<Vec<_>>()), post));
        }
        pypipegraph2::verif::take_signal_count();
        for (what, j, _payload, r) in tries {
            self.rep.misuse_calls += 1;
            let st = states.get(&j).cloned().unwrap_or_else(|| phase.to_string());
            self.rep.misuse_pairs.insert((st.clone(), what));
            match r {
                Ok(Err(PPGEvaluatorError::APIError(_))) => {}
                Ok(Ok(())) => viol!(self, "C20", "misuse-accepted", format!("{}:{}", what, st), "{} {} accepted in state {} ({})", what, j, st, phase),
                Ok(Err(e)) => viol!(self, "C20", "misuse-wrong-error", format!("{}:{}", what, st), "{} {} in state {} -> {}", what, j, st, err_str(&e)),
                Err(p) => viol!(self, "C20", "misuse-panic", format!("{}:{}", what, st), "{} {} in state {} -> {}", what, j, st, p),
            }
        }
        let after = fingerprint(&self.ev, g);
        if before != after {
            viol!(self, "C20", "misuse-changed-state", phase, "misuse calls changed the observable state:\n before {}\n after  {}", before, after);
        }
        let tr = pypipegraph2::verif::take_transitions();
        if !tr.is_empty() {
            viol!(self, "C20", "misuse-caused-transition", format!("{}->{}", tr[0].from, tr[0].to), "misuse calls caused transitions {:?}", tr);
        }
    }

    fn do_start(&mut self, j: &str) {
        // physical half of C02 at the moment the job is started
        let snap = self.snap.clone().unwrap();
        let by_id: BTreeMap<&str, &pypipegraph2::verif::JobSnap> = snap.jobs.iter().map(|j| (j.job_id.as_str(), j)).collect();
        self.check_inputs_materialised(j, "at-start", &by_id);
        let me = self.g.node(j).unwrap();
        let mut inputs = Vec::new();
        let mut seen: BTreeMap<String, Option<String>> = BTreeMap::new();
        let mut consumed_now: BTreeMap<String, String> = BTreeMap::new();
        let mut ondemand = 0usize;
        for e in self.g.ups(j) {
            let ukind = self.kinds[&e.up];
            seen.insert(
                e.up.clone(),
                match self.ev.get_job_output(&e.up) {
                    JobOutputResult::Done(o) => Some(o),
                    _ => None,
                },
            );
            if ukind == JobKind::Ephemeral {
                if let Some(up2d) = self.reference_uptodate {
                    if up2d.get(&e.up).cloned().unwrap_or(false) {
                        ondemand = ondemand.max(1);
                        // chain: its own ephemeral upstream also validated
                        if self.g.ups(&e.up).iter().any(|e2| self.kinds[&e2.up] == JobKind::Ephemeral && up2d.get(&e2.up).cloned().unwrap_or(false)) {
                            ondemand = 2;
                        }
                    }
                }
            }
            for name in &e.names {
                let val = {
                    let w = self.world.borrow();
                    match ukind {
                        JobKind::Output => w.disk.get(name).cloned(),
                        JobKind::Ephemeral => w.temp.get(name).cloned(),
                        JobKind::Always => w.mem.get(name).cloned(),
                    }
                };
                let val = val.unwrap_or_else(|| "MISSING".to_string());
                consumed_now.insert(name.clone(), val.clone());
                if used(name, &me.base) {
                    inputs.push((name.clone(), val));
                }
            }
        }
        inputs.sort();
        let jj = j.to_string();
        if self.plan.trace {
            let items: Vec<(String, String)> = seen.iter().map(|(u, r)| (u.clone(), r.as_ref().map(|x| crate::acc::jstr(x)).unwrap_or_else(|| "null".to_string()))).collect();
            self.rep.trace.push(format!("{{\"op\":\"peek\",\"job\":{},\"seen\":{}}}", crate::acc::jstr(j), crate::acc::jobj(&items)));
        }
        if self.call(format!("start {}", j), |ev| ev.event_now_running(&jj)).is_ok() {
            self.rep.started.push(jj.clone());
            self.rep.inputs_seen.insert(jj.clone(), seen);
            self.rep.consumed_seen.insert(jj.clone(), consumed_now);
            self.running.insert(jj.clone(), inputs);
            self.start_order.push(jj);
            if ondemand >= 1 {
                self.rep.ondemand_eph_starts += 1;
            }
            if ondemand >= 2 {
                self.rep.ondemand_eph_chain += 1;
            }
        }
    }

    fn spoil_outputs(&mut self, j: &str) {
        if self.kinds[j] == JobKind::Ephemeral {
            // a failed / interrupted temp-file job: garbage may be left at its path, or nothing
            let mut w = self.world.borrow_mut();
            for o in &self.g.node(j).unwrap().outs {
                if self.plan.garbage_on_fail {
                    w.leftover.insert(o.clone());
                } else {
                    w.leftover.remove(o);
                }
            }
        }
        if self.kinds[j] == JobKind::Output {
            let mut w = self.world.borrow_mut();
            for o in &self.g.node(j).unwrap().outs {
                if self.plan.garbage_on_fail {
                    w.disk.insert(o.clone(), "GARBAGE".to_string());
                } else {
                    w.disk.remove(o);
                }
            }
        }
    }

    fn do_finish(&mut self, j: &str, stamp: &mut u64) {
        let inputs = self.running.remove(j).unwrap();
        // out-of-order completion?
        if let Some(pos) = self.start_order.iter().position(|x| x == j) {
            if pos != 0 {
                self.rep.out_of_order_completion = true;
            }
            self.start_order.remove(pos);
        }
        let jj = j.to_string();
        if self.plan.fail.contains(j) {
            self.rep.failed.insert(jj.clone());
            self.spoil_outputs(j);
            let _ = self.call(format!("fail {}", j), |ev| ev.event_job_finished_failure(&jj));
        } else {
            let n = self.g.node(j).unwrap();
            let mut vals = job_fn(n, &inputs);
            let injected = self.plan.inject.contains(j);
            if injected {
                for v in vals.values_mut() {
                    v.push('X');
                }
            }
            let mut out = rec_of(&vals);
            if self.mode == CmpMode::Stamped {
                *stamp += 1;
                out = format!("{}|{}", out, stamp);
            }
            {
                let mut w = self.world.borrow_mut();
                for (o, v) in &vals {
                    match n.kind {
                        JobKind::Output => w.disk.insert(o.clone(), v.clone()),
                        JobKind::Ephemeral => {
                            // same path as when the job was an Output job: the old file is overwritten and later cleaned up
                            w.disk.remove(o);
                            w.leftover.remove(o);
                            w.temp.insert(o.clone(), v.clone())
                        }
                        JobKind::Always => w.mem.insert(o.clone(), v.clone()),
                    };
                }
            }
            let out2 = out.clone();
            match self.call(format!("ok {} {}", j, out), |ev| ev.event_job_finished_success(&jj, out2)) {
                Ok(()) => {
                    if injected {
                        viol!(self, "C16", "changed-output-not-detected", self.state_of(j), "changed output of validated ephemeral {} was accepted", j);
                    }
                    self.rep.succeeded.insert(jj, out);
                }
                Err(s) => {
                    if s.starts_with("EphemeralChangedOutput") {
                        self.rep.failed.insert(jj.clone());
                        self.rep.rejected.insert(jj.clone());
                        {
                            let mut w = self.world.borrow_mut();
                            for o in &n.outs {
                                w.temp.remove(o);
                            }
                        }
                        if !injected {
                            viol!(self, "C16", "spurious-ephemeral-changed-output", "", "{} although the job is deterministic and its inputs were what they were", s);
                        } else {
                            self.rep.detected_injections.insert(jj);
                        }
                    }
                }
            }
        }
    }

    fn do_cleanup(&mut self, j: &str) {
        let jj = j.to_string();
        let r = self.call(format!("cleanup {}", j), |ev| ev.event_job_cleanup_done(&jj));
        if let Err(e) = &r {
            if e.starts_with("APIError") {
                viol!(self, "C17", "cleanup-set-entry-not-acknowledgeable", self.state_of(j), "{} is reported ready for cleanup, but acknowledging it is refused ({}): the reported set disagrees with the engine's own state", j, e);
            }
        }
        if r.is_ok() {
            self.rep.cleanup_acked.insert(jj);
            let mut w = self.world.borrow_mut();
            for o in &self.g.node(j).unwrap().outs {
                w.temp.remove(o);
                w.leftover.remove(o);
            }
        }
    }

    fn do_abort(&mut self) {
        self.did_abort = true;
        self.rep.aborted = true;
        self.rep.abort_had_offered = self.ready.len();
        self.rep.abort_had_running = self.running.len();
        let rs: Vec<String> = self.running.keys().cloned().collect();
        if self.plan.fail_running_on_abort {
            for j in rs {
                self.running.remove(&j);
                self.rep.failed.insert(j.clone());
                self.spoil_outputs(&j);
                let jj = j.clone();
                let _ = self.call(format!("fail {}", j), |ev| ev.event_job_finished_failure(&jj));
                if self.rep.fatal {
                    return;
                }
                self.observe();
            }
        } else {
            for j in rs {
                self.rep.running_at_abort.insert(j.clone());
                self.spoil_outputs(&j);
            }
            self.running.clear();
        }
        self.start_order.clear();
        let r = self.call("abort".to_string(), |ev| ev.abort_remaining());
        if let Err(e) = &r {
            viol!(self, "C10", "abort-call-failed", error_sig(self.g, e), "abort_remaining -> {}", e);
            return;
        }
        let fin = self.ev.is_finished();
        let r2 = self.ev.query_ready_to_run();
        let q2 = self.ev.query_jobs_running();
        if !fin || !r2.is_empty() || !q2.is_empty() {
            let mut kinds: Vec<char> = r2.iter().map(|j| self.kc(j)).collect();
            kinds.sort();
            kinds.dedup();
            let sig = format!("fin={} ready={:?} running={}", fin, kinds, q2.len());
            viol!(self, "C10", "not-quiescent-after-abort", sig, "after abort: finished={} ready={:?} running={:?}", fin, r2, q2);
            if fin {
                viol!(self, "C05", "finished-but-active", "after-abort", "the aborted evaluation reports finished but ready {:?} running {:?}", r2, q2);
            }
        }
        if self.plan.misuse != Misuse::Off {
            // every illegal call is rejected without side effects after an abort as well
            self.misuse_round("after-abort");
        }
        {
            let snap = self.ev.verif_snapshot();
            for j in &r2 {
                if let Some(js) = snap.jobs.iter().find(|x| &x.job_id == j) {
                    if js.finished {
                        viol!(self, "C17", "offered-finished", self.kc(j), "{} still reported ready to run after the abort although it is finished ({})", j, js.state);
                    }
                }
            }
        }
        // C13: a cleanup that was offered and not yet acknowledged stays offered across the abort
        {
            let cl: BTreeSet<String> = self.ev.query_ready_for_cleanup().into_iter().collect();
            let pending: Vec<String> = self.prev_cleanup.iter().filter(|j| !self.rep.cleanup_acked.contains(*j)).cloned().collect();
            for j in pending {
                if !cl.contains(&j) {
                    viol!(self, "C13", "cleanup-offer-withdrawn", "at-abort", "cleanup offer of {} withdrawn by the abort without acknowledgement", j);
                    viol!(self, "C17", "cleanup-set-disagrees-with-events", "withdrawn-at-abort", "{} was reported ready for cleanup, no acknowledgement was delivered, and after the abort it is no longer reported", j);
                }
            }
            for j in &cl {
                if !self.prev_cleanup.contains(j) {
                    viol!(self, "C13", "cleanup-offered-by-abort", "", "cleanup of {} newly offered by the abort", j);
                }
            }
            // acknowledging them afterwards is legal
            for j in cl {
                self.do_cleanup(&j);
            }
        }
        // the driver's running set is empty now, but running_at_abort jobs were never reported: skip the
        // running-set comparison by observing with what the engine says is aborted
        let snap = self.ev.verif_snapshot();
        for t in pypipegraph2::verif::take_transitions() {
            self.rep.transition_pairs.insert((t.from.clone(), t.to.clone()));
            if t.from_finished && !t.to_finished {
                viol!(self, "C17", "finished-to-unfinished", format!("{}->{}", t.from, t.to), "{} {} -> {}", t.job_id, t.from, t.to);
            }
            if t.from_finished && !t.from_failed && t.to_failed && self.rep.started.contains(&t.job_id) {
                viol!(self, "C17", "success-to-failed", format!("{}->{}", t.from, t.to), "{} {} -> {}", t.job_id, t.from, t.to);
            }
        }
        for j in snap.jobs.iter() {
            if self.was_finished.contains(&j.job_id) && !j.finished {
                viol!(self, "C17", "unfinished-again", j.state.clone(), "{} was finished, now {}", j.job_id, j.state);
            }
        }
        self.rep.upstream_failed = self.ev.query_upstream_failed().into_iter().collect();
        self.rep.failed_q = self.ev.query_failed().into_iter().collect();
        // C17: after the abort the failed report still is exactly what the driver reported failed
        if self.rep.failed_q != self.rep.failed {
            viol!(self, "C17", "failed-set", "after-abort", "after the abort the failed set is {:?}, the driver reported {:?} as failed", self.rep.failed_q, self.rep.failed);
        }
        for j in snap.jobs.iter() {
            if self.rep.upstream_failed.contains(&j.job_id) != j.upstream_failed {
                viol!(self, "C17", "upf-query-mismatch", "after-abort", "{} query_upstream_failed disagrees with state {} after the abort", j.job_id, j.state);
            }
            if self.rep.started.contains(&j.job_id) && self.rep.upstream_failed.contains(&j.job_id) {
                viol!(self, "C07", "started-upstream-failed", j.state.clone(), "started job {} reported upstream failed after the abort", j.job_id);
            }
        }
        self.finished = fin;
        self.snap = Some(snap);
    }
}


#[allow(clippy::too_many_arguments)]
pub fn evaluate(
    g: &Graph,
    history: &History,
    world: &Rc<RefCell<World>>,
    plan: &Plan,
    mode: CmpMode,
    stamp: &mut u64,
    mut chooser: Chooser,
    reference_uptodate: Option<&BTreeMap<String, bool>>,
) -> Report {
    {
        let mut w = world.borrow_mut();
        // temporary files nobody cleaned up stay where they are
        let left: Vec<String> = w.temp.keys().cloned().collect();
        w.leftover.extend(left);
        w.temp.clear();
        w.mem.clear();
    }
    let w2 = world.clone();
    let consumed = g.consumed();
    let consumed2 = consumed.clone();
    // the comparison is asked "is <current> altered with respect to <last recorded>": the recorded side always comes
    // from the input history. A question with the roles swapped is only harmless for symmetric comparisons (C16, C15).
    let recorded_values: std::collections::HashSet<String> = history.values().cloned().collect();
    let role_errors: Rc<RefCell<Vec<String>>> = Rc::new(RefCell::new(vec![]));
    let role_errors2 = role_errors.clone();
    let strat = VerifStrategy {
        present: Box::new(move |q| q.split(":::").all(|p| w2.borrow().disk.contains_key(p) || w2.borrow().leftover.contains(p))),
        altered: Box::new(move |u, d, last, cur| {
            if !recorded_values.contains(last) && role_errors2.borrow().len() < 4 {
                role_errors2.borrow_mut().push(format!("is_history_altered({}, {}, last={:?}, current={:?}): the 'last recorded' argument is not a record of the input history{}", u, d, last, cur, if recorded_values.contains(cur) { " (the 'current' argument is: the two are swapped)" } else { "" }));
            }
            altered(mode, &consumed, u, d, last, cur)
        }),
        input_list: Box::new(move |id, _ups| consumed2[id].iter().cloned().collect::<Vec<_>>().join("\n")),
    };
    let mut ev: Ev = PPGEvaluator::new_with_history(history.clone(), strat);
    for n in &g.nodes {
        ev.add_node(&n.id, n.kind);
    }
    for e in &g.edges {
        ev.depends_on(&e.down, &e.up);
    }
    pypipegraph2::verif::take_transitions();
    pypipegraph2::verif::take_max_depth();
    pypipegraph2::verif::set_signal_budget(Some(signal_budget(g)));

    let mut d = Drv {
        g,
        plan,
        mode,
        world: world.clone(),
        ev,
        rep: Report::default(),
        running: BTreeMap::new(),
        start_order: vec![],
        prev_ready: BTreeSet::new(),
        prev_cleanup: BTreeSet::new(),
        was_finished: BTreeSet::new(),
        did_abort: false,
        kinds: g.nodes.iter().map(|n| (n.id.clone(), n.kind)).collect(),
        ready: BTreeSet::new(),
        cleanup: BTreeSet::new(),
        finished: false,
        snap: None,
        reference_uptodate,
    };
    let mut misuse_rng = Rng::derive(plan.sched_seed, &[77]);
    let mut delay_rng = Rng::derive(plan.sched_seed, &[78]);

    if plan.misuse != Misuse::Off {
        d.misuse_round("before-startup");
    }
    let _ = d.call("startup".to_string(), |ev| ev.event_startup());
    let bound = 3 * g.nodes.len() + 3;
    let mut step = 0usize;
    loop {
        if d.rep.fatal {
            break;
        }
        d.observe();
        if d.rep.fatal {
            break;
        }
        // misuse injection
        let inject_now = match plan.misuse {
            Misuse::Off => false,
            Misuse::Every => true,
            Misuse::Random(p) => misuse_rng.chance(p),
        };
        if inject_now {
            d.misuse_round(if d.finished { "finished" } else { "running" });
        }
        if d.finished {
            if plan.history_before_late_acks && !d.cleanup.is_empty() && d.rep.history_early.is_none() {
                let ev = &d.ev;
                if let Ok(Ok(h)) = guarded(|| ev.new_history()) {
                    d.rep.history_early = Some(h);
                }
            }
            // pending cleanups may still be acknowledged after the evaluation finished
            if !d.cleanup.is_empty() && step <= bound {
                let j = d.cleanup.iter().next().unwrap().clone();
                d.do_cleanup(&j);
                step += 1;
                continue;
            }
            break;
        }
        if step > bound {
            viol!(d, "C05", "step-bound-exceeded", "", "more than 3*jobs+3 = {} driver actions", bound);
            break;
        }
        step += 1;
        // ---- choose an action
        let mut actions: Vec<(u8, String)> = Vec::new();
        let forced_cleanup = plan.cleanup == Cleanup::Immediate && !d.cleanup.is_empty();
        if forced_cleanup {
            let j = d.cleanup.iter().next().unwrap().clone();
            d.do_cleanup(&j);
            continue;
        }
        if d.running.len() < plan.max_parallel {
            if plan.use_next_job {
                if let Some(j) = d.ev.next_job_ready_to_run() {
                    actions.push((0, j));
                }
            } else {
                for j in &d.ready {
                    actions.push((0, j.clone()));
                }
            }
        }
        for j in d.running.keys() {
            actions.push((1, j.clone()));
        }
        match plan.cleanup {
            Cleanup::Random(p) => {
                for j in &d.cleanup {
                    if !delay_rng.chance(p) {
                        actions.push((2, j.clone()));
                    }
                }
            }
            Cleanup::Immediate | Cleanup::AtEnd => {}
        }
        if actions.is_empty() {
            for j in &d.cleanup {
                actions.push((2, j.clone()));
            }
        }
        if actions.is_empty() {
            // nothing to do although not finished: observe() reports the stall
            viol!(d, "C05", "no-action-possible", "", "not finished but the driver has no legal action");
            break;
        }
        // abort_at = k: abort at the moment the driver would make its k-th choice
        if plan.abort_at == Some(d.rep.choices.len()) {
            d.do_abort();
            break;
        }
        let c = chooser.choose(actions.len(), &mut d.rep.choices);
        let (kind, j) = actions[c].clone();
        match kind {
            0 => d.do_start(&j),
            1 => d.do_finish(&j, stamp),
            _ => d.do_cleanup(&j),
        }
    }
    for e in role_errors.borrow().iter() {
        let swapped = e.contains("swapped");
        d.rep.violations.push(Violation { prop: "C16", rule: "comparison-asked-with-wrong-roles", sig: format!("comparison-asked-with-wrong-roles|{}", if swapped { "swapped" } else { "not-from-history" }), detail: e.clone() });
        d.rep.violations.push(Violation { prop: "C15", rule: "comparison-asked-with-wrong-roles", sig: format!("comparison-asked-with-wrong-roles|{}", if swapped { "swapped" } else { "not-from-history" }), detail: e.clone() });
    }
    d.rep.steps = step;
    d.rep.max_depth = pypipegraph2::verif::take_max_depth();
    if d.rep.started.len() != d.rep.started_set().len() {
        viol!(d, "C05", "started-twice", "", "a job was started twice: {:?}", d.rep.started);
    }
    if plan.abort_when_finished && d.finished && !d.did_abort && !d.rep.fatal {
        let before = fingerprint(&d.ev, g);
        let r = d.call("abort".to_string(), |ev| ev.abort_remaining());
        if let Err(e) = &r {
            viol!(d, "C10", "abort-call-failed", format!("when-finished:{}", error_sig(g, e)), "abort_remaining on the finished evaluation -> {}", e);
        } else {
            let fin = d.ev.is_finished();
            if !fin || !d.ev.query_ready_to_run().is_empty() || !d.ev.query_jobs_running().is_empty() {
                viol!(d, "C10", "not-quiescent-after-abort", "when-finished", "abort_remaining on the finished evaluation: finished={} ready={:?} running={:?}", fin, d.ev.query_ready_to_run(), d.ev.query_jobs_running());
            }
            let after = fingerprint(&d.ev, g);
            if before != after {
                viol!(d, "C17", "abort-of-finished-evaluation-changed-state", "", "every job was finished, yet abort_remaining changed the reported state:\n before {}\n after  {}", before, after);
            }
            pypipegraph2::verif::take_transitions();
        }
        d.rep.observations += 1;
    }
    d.rep.final_snap = d.snap.clone();
    if !d.rep.fatal && d.finished {
        let ev = &d.ev;
        match guarded(|| ev.new_history()) {
            Ok(Ok(h)) => {
                if let Some(early) = &d.rep.history_early {
                    if *early != h {
                        let mut ks: Vec<&String> = early.keys().filter(|k| h.get(*k) != early.get(*k)).collect();
                        ks.extend(h.keys().filter(|k| !early.contains_key(*k)));
                        ks.sort();
                        ks.dedup();
                        let detail = format!("the history taken while cleanups were still on offer differs from the one taken after they were acknowledged, in {:?}", ks.iter().take(6).map(|k| (k.to_string(), early.get(*k).cloned(), h.get(*k).cloned())).collect::<Vec<_>>());
                        d.rep.violations.push(Violation { prop: "C14", rule: "history-depends-on-ack-timing", sig: "history-depends-on-ack-timing|".to_string(), detail: detail.clone() });
                        d.rep.violations.push(Violation { prop: "C11", rule: "history-before-late-ack-differs", sig: "history-before-late-ack-differs|".to_string(), detail });
                    }
                }
                d.rep.history_out = Some(h)
            }
            Ok(Err(e)) => {
                let s = err_str(&e);
                let sig = error_sig(g, &s);
                d.rep.errors.push(format!("new_history -> {}", s));
                viol!(d, "C06", "call-error", format!("InternalError:{}", sig), "new_history -> {}", s);
                if d.rep.aborted {
                    viol!(d, "C10", "history-after-abort-failed", sig, "new_history after abort -> {}", s);
                }
            }
            Err(p) => {
                let sig = error_sig(g, &p);
                d.rep.errors.push(format!("new_history -> {}", p));
                viol!(d, "C06", "call-panic", sig.clone(), "new_history -> {}", p);
                if d.rep.aborted {
                    viol!(d, "C10", "history-after-abort-failed", sig, "new_history after abort -> {}", p);
                }
            }
        }
    }
    d.rep
}
