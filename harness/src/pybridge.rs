//! PyO3 boundary replay: the chains are run by the monitored Rust driver with a structured call
//! trace; every primary evaluation is then replayed call by call against the *real extension module*
//! (`PPG2Evaluator` of lib.rs, `StrategyForPython`, real files for `output_already_present`, the real
//! `history_comparisons.py` as comparison callback) by /verif/pybridge/replay.py, which compares every
//! call result and every query result with what the Rust binding of the same engine showed.
use crate::acc::*;
use crate::chain::*;
use std::path::{Path, PathBuf};
use std::process::{Command, Stdio};
use std::time::Instant;

pub struct BridgeEnv {
    pub python: String,
    pub script: String,
    pub ext_dir: String,
    pub repo: String,
}

pub fn env() -> Result<BridgeEnv, String> {
    let g = |k: &str| std::env::var(k).map_err(|_| format!("{} not set (the check script builds the extension module and sets it)", k));
    let e = BridgeEnv { python: g("PPGMON_PYTHON")?, script: g("PPGMON_PYBRIDGE")?, ext_dir: g("PPGMON_PYEXT")?, repo: std::env::var("PPGMON_REPO").unwrap_or_else(|_| "/repo".to_string()) };
    if !Path::new(&e.ext_dir).join("pypipegraph2.abi3.so").exists() {
        return Err(format!("{}/pypipegraph2.abi3.so does not exist", e.ext_dir));
    }
    Ok(e)
}

pub fn chain_line(seed: u64, cfg: &ChainCfg, out: &ChainOutcome) -> String {
    jobj(&[
        ("seed".to_string(), seed.to_string()),
        ("conv".to_string(), jstr(cfg.conv.name())),
        ("family".to_string(), jstr(cfg.family.name())),
        ("evals".to_string(), jarr(&out.export)),
    ])
}

fn unesc(s: &str) -> String {
    s.replace("\\n", "\n").replace("\\t", "\t")
}

/// write the shards, run one replayer process per shard, merge what they report
pub fn replay_lines(lines: Vec<String>, cfg: &ChainCfg, workdir: &Path, nshards: usize, deadline: Instant, acc: &mut Acc, verbose: bool) {
    let be = match env() {
        Ok(e) => e,
        Err(e) => {
            acc.inconclusive.push(format!("PyO3 boundary replay not possible: {}", e));
            return;
        }
    };
    let _ = std::fs::create_dir_all(workdir);
    let nshards = nshards.max(1).min(lines.len().max(1));
    let mut shard_txt: Vec<String> = vec![String::new(); nshards];
    for (i, l) in lines.iter().enumerate() {
        shard_txt[i % nshards].push_str(l);
        shard_txt[i % nshards].push('\n');
    }
    let mut children = vec![];
    for (i, txt) in shard_txt.iter().enumerate() {
        let inp: PathBuf = workdir.join(format!("shard{}.jsonl", i));
        let res: PathBuf = workdir.join(format!("shard{}.result.tsv", i));
        let _ = std::fs::remove_file(&res);
        if std::fs::write(&inp, txt).is_err() {
            acc.inconclusive.push(format!("cannot write {:?}", inp));
            return;
        }
        let mut c = Command::new(&be.python);
        c.arg(&be.script).arg(&be.ext_dir).arg(&be.repo).arg(&inp).arg(&res).stdin(Stdio::null());
        if !verbose {
            c.stdout(Stdio::null());
        } else {
            c.arg("-v");
        }
        match c.spawn() {
            Ok(ch) => children.push((ch, res, inp)),
            Err(e) => {
                acc.inconclusive.push(format!("cannot start {}: {}", be.python, e));
                return;
            }
        }
    }
    for (mut ch, res, inp) in children {
        let status = loop {
            match ch.try_wait() {
                Ok(Some(st)) => break Some(st),
                Ok(None) => {
                    if Instant::now() > deadline {
                        let _ = ch.kill();
                        let _ = ch.wait();
                        break None;
                    }
                    std::thread::sleep(std::time::Duration::from_millis(20));
                }
                Err(_) => break None,
            }
        };
        match status {
            None => {
                acc.inconclusive.push("PyO3 boundary replay: watchdog stopped a replayer process".to_string());
                continue;
            }
            Some(st) if !st.success() => {
                // the replayer catches everything the engine can raise; if the process itself dies (abort, signal)
                // the result file says which evaluation it was working on
                let tail = std::fs::read_to_string(&res).unwrap_or_default();
                let last = tail.lines().rev().find(|l| l.starts_with("W\t")).unwrap_or("").to_string();
                if st.code().is_none() {
                    let f: Vec<&str> = last.split('\t').collect();
                    let seed = f.get(1).cloned().unwrap_or("?").to_string();
                    let mut ra = cfg.replay_args(seed.parse().unwrap_or(0));
                    ra[1] = "pybridge".to_string();
                    acc.violation(Witness {
                        prop: "C06".into(),
                        rule: "pybridge-process-died".into(),
                        sig: "pybridge-process-died|signal".into(),
                        detail: format!("the python process replaying through the extension module died on a signal ({:?}) while working on chain seed {} ({})", st, seed, last),
                        replay_args: ra,
                        trace: String::new(),
                    });
                } else {
                    acc.inconclusive.push(format!("PyO3 boundary replay: replayer exited with {:?} on {:?} (last: {})", st.code(), inp, last));
                }
            }
            _ => {}
        }
        let txt = match std::fs::read_to_string(&res) {
            Ok(t) => t,
            Err(_) => {
                acc.inconclusive.push(format!("PyO3 boundary replay: no result file {:?}", res));
                continue;
            }
        };
        for l in txt.lines() {
            let f: Vec<&str> = l.split('\t').collect();
            match f.first().cloned() {
                Some("V") if f.len() >= 7 => {
                    let seed: u64 = f[4].parse().unwrap_or(0);
                    let mut ra = cfg.replay_args(seed);
                    ra[1] = "pybridge".to_string();
                    acc.violation(Witness { prop: f[1].to_string(), rule: f[2].to_string(), sig: format!("{}|{}", f[2], f[3]), detail: format!("[PyO3 replay, chain seed {} eval#{}] {}", seed, f[5], unesc(f[6])), replay_args: ra, trace: String::new() });
                    if verbose {
                        println!("seed {} step {} {} {}|{} [pybridge] {}", seed, f[5], f[1], f[2], f[3], unesc(f[6]).chars().take(400).collect::<String>());
                    }
                }
                Some("C") if f.len() >= 3 => acc.count(f[1], f[2].parse().unwrap_or(0)),
                Some("S") if f.len() >= 3 => acc.set(f[1], f[2].to_string()),
                Some("N") if f.len() >= 3 => acc.nontrivial(f[1], f[2].parse().unwrap_or(0)),
                Some("I") if f.len() >= 2 => acc.inconclusive.push(format!("PyO3 boundary replay: {}", f[1])),
                Some("E") if f.len() >= 2 => {
                    let n: u64 = f[1].parse().unwrap_or(0);
                    acc.evaluations += n;
                }
                _ => {}
            }
        }
        if !verbose {
            let _ = std::fs::remove_file(&inp);
        }
    }
}
