//! Reference oracles: small, executable, deterministic. They describe the
//! *environment's* view (what a clean build yields, which jobs are up to date
//! according to the property statements) - not the engine's algorithm.
use crate::model::*;
use pypipegraph2::JobKind;
use std::collections::{BTreeMap, BTreeSet};

/// name -> value of a from-scratch build of the current graph
pub fn clean_build(g: &Graph) -> BTreeMap<String, String> {
    let mut out: BTreeMap<String, String> = BTreeMap::new();
    for n in g.topo() {
        let mut inputs: Vec<(String, String)> = n
            .inputs
            .iter()
            .filter(|i| used(i, &n.base))
            .map(|i| (i.clone(), out[i].clone()))
            .collect();
        inputs.sort();
        out.extend(job_fn(n, &inputs));
    }
    out
}

/// What the *driver* saw at a job's last successful execution: the ground truth that "up to date"
/// is about, independent of what the engine wrote into its history.
#[derive(Clone, Debug, Default)]
pub struct ShadowRec {
    pub input_names: String,
    /// consumed name -> value the job was built from
    pub consumed: BTreeMap<String, String>,
    /// own output name -> value
    pub outs: BTreeMap<String, String>,
    /// consumed name -> id of the job that produced it then
    pub consumed_from: BTreeMap<String, String>,
}

/// Ground truth kept by the harness; `clean` = jobs for which it applies without caveat (no edit
/// touched their input set since the last success, no history wipe since).
#[derive(Clone, Debug, Default)]
pub struct Shadow {
    pub rec: BTreeMap<String, ShadowRec>,
    pub dirty: BTreeSet<String>,
}

pub struct Expect {
    pub uptodate: BTreeMap<String, bool>,
    pub executed: BTreeSet<String>,
    /// two historical ids tie as the predecessor of a renamed multi-output job: not judged
    pub ambiguous: bool,
    /// some job's edge record was found under a historical (renamed) upstream id
    pub used_renamed: BTreeSet<String>,
    /// job executed while >=1 direct consumer is skipped (shielding)
    pub shielding: bool,
    /// up-to-date jobs with >=1 per-dependency record that differs textually from the upstream's current
    /// record but is judged unaltered by the configured comparison (the C15 situation)
    pub textdiff: BTreeSet<String>,
}

/// The record of what `down` last consumed from `up`: `H[up!!!down]`, or, if `up` is a
/// multi-output job whose id changed, the per-dependency record of the historical id
/// sharing most output names with `up`.
pub fn old_edge_record<'a>(h: &'a History, up: &str, down: &str, ambiguous: &mut bool, renamed: &mut bool) -> Option<&'a String> {
    if let Some(r) = h.get(&format!("{}!!!{}", up, down)) {
        return Some(r);
    }
    let parts: BTreeSet<&str> = up.split(":::").collect();
    let suffix = format!("!!!{}", down);
    let mut best: Option<(&String, usize)> = None;
    let mut tie = false;
    for (k, v) in h.iter() {
        if k.ends_with(&suffix) {
            let x = &k[..k.len() - suffix.len()];
            if x.is_empty() || x.contains("!!!") {
                continue;
            }
            let ov = x.split(":::").filter(|p| parts.contains(p)).count();
            if ov > 0 {
                match best {
                    Some((_, b)) if b > ov => {}
                    Some((_, b)) if b == ov => {
                        tie = true;
                    }
                    _ => {
                        best = Some((v, ov));
                        tie = false;
                    }
                }
            }
        }
    }
    if tie {
        *ambiguous = true;
    }
    if best.is_some() {
        *renamed = true;
    }
    best.map(|x| x.0)
}

/// Reference model of a failure-free evaluation: which jobs are up to date (C03's
/// statement transcribed) and which are executed (C04's statement transcribed).
/// `tainted`: jobs whose last attempt failed or was cut short by an abort while running ("no failed
/// attempt has touched it since" - known to the driver, independent of what the engine recorded).
pub fn expected(g: &Graph, h: &History, disk: &BTreeMap<String, String>, mode: CmpMode, tainted: &BTreeSet<String>) -> Expect {
    expected_with(g, h, disk, mode, tainted, None)
}

/// With `shadow`: for every job the ground truth applies to, "up to date" is decided from what the
/// driver saw the job consume at its last success instead of from the engine's records.
pub fn expected_with(g: &Graph, h: &History, disk: &BTreeMap<String, String>, mode: CmpMode, tainted: &BTreeSet<String>, shadow: Option<&Shadow>) -> Expect {
    let consumed = g.consumed();
    let mut ambiguous = false;
    let mut used_renamed = BTreeSet::new();
    let mut uptodate = BTreeMap::new();
    let mut cur: BTreeMap<String, String> = BTreeMap::new(); // name -> value currently on offer
    let mut currec: BTreeMap<String, String> = BTreeMap::new(); // job id -> record string
    let mut must: BTreeSet<String> = BTreeSet::new();
    let mut textdiff: BTreeSet<String> = BTreeSet::new();
    for n in g.topo() {
        let mut any_textdiff = false;
        let useless = g.useless_ephemeral(&n.id);
        let mut ok = h.contains_key(&n.id) && h.get(&format!("{}!!!", n.id)).map(|x| x.as_str()) == Some(g.input_names(&n.id).as_str());
        if n.kind == JobKind::Output && !n.outs.iter().all(|o| disk.contains_key(o)) {
            ok = false;
        }
        if tainted.contains(&n.id) {
            ok = false;
        }
        for e in g.ups(&n.id) {
            let mut renamed = false;
            match old_edge_record(h, &e.up, &n.id, &mut ambiguous, &mut renamed) {
                None => ok = false,
                Some(rec) => match currec.get(&e.up) {
                    Some(c) => {
                        if altered(mode, &consumed, &e.up, &n.id, rec, c) {
                            ok = false
                        } else if rec != c || (mode == CmpMode::Stamped && must.contains(&e.up)) {
                            // (a re-executed upstream always reports a new stamp)
                            any_textdiff = true;
                        }
                    }
                    None => ok = false,
                },
            }
            if renamed {
                used_renamed.insert(n.id.clone());
            }
        }
        if let Some(sh) = shadow {
            if let Some(r) = sh.rec.get(&n.id) {
                // known for sure even where the ground truth otherwise abstains: built from another set of input names
                if r.input_names != g.input_names(&n.id) {
                    ok = false;
                }
            }
            if !sh.dirty.contains(&n.id) {
                match sh.rec.get(&n.id) {
                    // never succeeded (since the last wipe): not up to date, whatever the history says
                    None => ok = false,
                    Some(r) => {
                        let mut t = r.input_names == g.input_names(&n.id) && !tainted.contains(&n.id);
                        if n.kind == JobKind::Output && !n.outs.iter().all(|o| disk.contains_key(o)) {
                            t = false;
                        }
                        for name in &n.inputs {
                            if cur.get(name) != r.consumed.get(name) {
                                t = false;
                            }
                        }
                        ok = t;
                    }
                }
            }
        }
        uptodate.insert(n.id.clone(), ok);
        if ok && any_textdiff {
            textdiff.insert(n.id.clone());
        }
        if useless {
            if ok {
                if let Some(r) = h.get(&n.id) {
                    currec.insert(n.id.clone(), r.clone());
                    cur.extend(parse_rec(r));
                }
            }
            continue;
        }
        let exec_now = n.kind == JobKind::Always || !ok;
        if exec_now {
            must.insert(n.id.clone());
            let mut inputs: Vec<(String, String)> = n
                .inputs
                .iter()
                .filter(|i| used(i, &n.base))
                .map(|i| (i.clone(), cur.get(i).cloned().unwrap_or_else(|| "MISSING".into())))
                .collect();
            inputs.sort();
            let vals = job_fn(n, &inputs);
            currec.insert(n.id.clone(), rec_of(&vals));
            cur.extend(vals);
        } else {
            // skipped: its current output is what it produced at its last success
            let r = match (h.get(&n.id), shadow.and_then(|s| s.rec.get(&n.id))) {
                (Some(r), _) => r.clone(),
                (None, Some(sr)) => rec_of(&sr.outs),
                (None, None) => String::new(),
            };
            cur.extend(parse_rec(&r));
            currec.insert(n.id.clone(), r);
        }
    }
    let mut executed = must.clone();
    let mut t = g.topo();
    t.reverse();
    for n in t {
        if n.kind == JobKind::Ephemeral && !executed.contains(&n.id) && !g.useless_ephemeral(&n.id) && g.downs(&n.id).iter().any(|e| executed.contains(&e.down)) {
            executed.insert(n.id.clone());
        }
    }
    let shielding = g
        .nodes
        .iter()
        .any(|n| executed.contains(&n.id) && g.downs(&n.id).iter().any(|e| !executed.contains(&e.down) && !g.useless_ephemeral(&e.down)));
    Expect { uptodate, executed, ambiguous, used_renamed, shielding, textdiff }
}
