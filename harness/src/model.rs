//! Environment model: what jobs compute, what is on disk, how records look.
//! Nothing in here models the engine.
use pypipegraph2::JobKind;
use std::collections::{BTreeMap, BTreeSet, HashMap};

// ---------------------------------------------------------------- rng
#[derive(Clone, Debug)]
pub struct Rng(pub u64);
impl Rng {
    pub fn new(seed: u64) -> Self {
        Rng(seed.wrapping_mul(0x9E3779B97F4A7C15) ^ 0xD1B54A32D192ED03)
    }
    /// independent stream for (seed, purpose...)
    pub fn derive(seed: u64, tags: &[u64]) -> Self {
        let mut r = Rng::new(seed);
        for t in tags {
            r.0 ^= t.wrapping_mul(0xA24BAED4963EE407);
            r.next();
        }
        r
    }
    pub fn next(&mut self) -> u64 {
        self.0 = self.0.wrapping_add(0x9E3779B97F4A7C15);
        let mut z = self.0;
        z = (z ^ (z >> 30)).wrapping_mul(0xBF58476D1CE4E5B9);
        z = (z ^ (z >> 27)).wrapping_mul(0x94D049BB133111EB);
        z ^ (z >> 31)
    }
    pub fn below(&mut self, n: usize) -> usize {
        if n == 0 {
            0
        } else {
            (self.next() % n as u64) as usize
        }
    }
    pub fn chance(&mut self, p: f64) -> bool {
        ((self.next() >> 11) as f64 / ((1u64 << 53) as f64)) < p
    }
    pub fn pick<'a, T>(&mut self, v: &'a [T]) -> &'a T {
        &v[self.below(v.len())]
    }
    pub fn shuffle<T>(&mut self, v: &mut [T]) {
        for i in (1..v.len()).rev() {
            let j = self.below(i + 1);
            v.swap(i, j);
        }
    }
}

pub fn fnv(s: &str) -> u64 {
    let mut h: u64 = 0xcbf29ce484222325;
    for b in s.bytes() {
        h ^= b as u64;
        h = h.wrapping_mul(0x100000001b3);
    }
    h
}

// ---------------------------------------------------------------- project model
#[derive(Clone, Debug)]
pub struct Node {
    pub id: String,               // outs.join(":::")
    pub base: String,             // stable logical name
    pub outs: Vec<String>,        // sorted output names
    pub inputs: BTreeSet<String>, // consumed output names
    pub kind: JobKind,
    pub ver: u32,
    pub dom: u64,
    pub rank: u32,
}
#[derive(Clone, Debug)]
pub struct Edge {
    pub up: String,
    pub down: String,
    pub names: Vec<String>,
}
#[derive(Clone, Debug, Default)]
pub struct Graph {
    pub nodes: Vec<Node>,
    pub edges: Vec<Edge>,
    pub edge_order_seed: u64,
}

/// Whether a consumer's function actually looks at a consumed name. A fixed
/// function of (name, consumer) so that edits never change behaviour silently.
pub fn used(name: &str, down_base: &str) -> bool {
    fnv(&format!("{}>{}", name, down_base)) % 4 != 0
}

impl Graph {
    pub fn rebuild(&mut self) {
        for n in self.nodes.iter_mut() {
            n.outs.sort();
            n.id = n.outs.join(":::");
        }
        let mut producer: HashMap<String, String> = HashMap::new();
        for n in &self.nodes {
            for o in &n.outs {
                producer.insert(o.clone(), n.id.clone());
            }
        }
        let mut edges: Vec<Edge> = vec![];
        for n in self.nodes.iter_mut() {
            let own: BTreeSet<String> = n.outs.iter().cloned().collect();
            n.inputs.retain(|i| producer.contains_key(i) && !own.contains(i));
        }
        for n in &self.nodes {
            let mut by_up: BTreeMap<String, Vec<String>> = BTreeMap::new();
            for i in &n.inputs {
                by_up.entry(producer[i].clone()).or_default().push(i.clone());
            }
            for (u, names) in by_up {
                edges.push(Edge { up: u, down: n.id.clone(), names });
            }
        }
        // pseudo-random but deterministic declaration order
        let seed = self.edge_order_seed;
        edges.sort_by_key(|e| fnv(&format!("{}{}{}", seed, e.up, e.down)));
        self.edges = edges;
    }
    pub fn node(&self, id: &str) -> Option<&Node> {
        self.nodes.iter().find(|n| n.id == id)
    }
    pub fn ups(&self, id: &str) -> Vec<&Edge> {
        self.edges.iter().filter(|e| e.down == id).collect()
    }
    pub fn downs(&self, id: &str) -> Vec<&Edge> {
        self.edges.iter().filter(|e| e.up == id).collect()
    }
    pub fn has_edge(&self, up: &str, down: &str) -> bool {
        self.edges.iter().any(|e| e.up == up && e.down == down)
    }
    pub fn topo(&self) -> Vec<&Node> {
        let mut v: Vec<&Node> = self.nodes.iter().collect();
        v.sort_by_key(|n| n.rank);
        v
    }
    pub fn kind(&self, id: &str) -> JobKind {
        self.node(id).unwrap().kind
    }
    /// Ephemeral on which no non-Ephemeral job depends through Ephemerals only.
    pub fn useless_ephemeral(&self, id: &str) -> bool {
        if self.kind(id) != JobKind::Ephemeral {
            return false;
        }
        self.downs(id).iter().all(|e| self.useless_ephemeral(&e.down))
    }
    /// Ephemeral from which an Always job is reachable through Ephemerals only
    pub fn feeds_always(&self, id: &str) -> bool {
        self.downs(id).iter().any(|e| match self.kind(&e.down) {
            JobKind::Always => true,
            JobKind::Ephemeral => self.feeds_always(&e.down),
            JobKind::Output => false,
        })
    }
    pub fn ancestors(&self, id: &str) -> BTreeSet<String> {
        let mut out = BTreeSet::new();
        let mut stack = vec![id.to_string()];
        while let Some(x) = stack.pop() {
            for e in self.ups(&x) {
                if out.insert(e.up.clone()) {
                    stack.push(e.up.clone());
                }
            }
        }
        out
    }
    pub fn consumed(&self) -> HashMap<String, BTreeSet<String>> {
        self.nodes.iter().map(|n| (n.id.clone(), n.inputs.clone())).collect()
    }
    pub fn input_names(&self, id: &str) -> String {
        let v: Vec<&str> = self.node(id).unwrap().inputs.iter().map(|x| x.as_str()).collect();
        v.join("\n")
    }
    pub fn describe(&self) -> String {
        let mut ns: Vec<&Node> = self.nodes.iter().collect();
        ns.sort_by_key(|n| n.rank);
        let mut s = String::new();
        for n in ns {
            let k = match n.kind {
                JobKind::Always => "A",
                JobKind::Output => "O",
                JobKind::Ephemeral => "E",
            };
            s.push_str(&format!(
                "{}:{}:v{}:d{}<-[{}] ",
                n.id,
                k,
                n.ver,
                n.dom,
                n.inputs
                    .iter()
                    .map(|i| if used(i, &n.base) { i.clone() } else { format!("({})", i) })
                    .collect::<Vec<_>>()
                    .join(",")
            ));
        }
        s
    }
    /// shape without versions / domains: kinds and edges by rank position
    pub fn shape(&self) -> String {
        let mut ns: Vec<&Node> = self.nodes.iter().collect();
        ns.sort_by_key(|n| n.rank);
        let pos: HashMap<&str, usize> = ns.iter().enumerate().map(|(i, n)| (n.id.as_str(), i)).collect();
        let mut s = String::new();
        for n in &ns {
            s.push(match n.kind {
                JobKind::Always => 'A',
                JobKind::Output => 'O',
                JobKind::Ephemeral => 'E',
            });
            if n.outs.len() > 1 {
                s.push_str(&format!("{}", n.outs.len()));
            }
        }
        let mut es: Vec<(usize, usize)> = self.edges.iter().map(|e| (pos[e.up.as_str()], pos[e.down.as_str()])).collect();
        es.sort();
        for (a, b) in es {
            s.push_str(&format!(" {}>{}", a, b));
        }
        s
    }
}

pub fn kind_char(k: JobKind) -> char {
    match k {
        JobKind::Always => 'A',
        JobKind::Output => 'O',
        JobKind::Ephemeral => 'E',
    }
}

/// the part of a record before the stamp
pub fn payload(s: &str) -> &str {
    s.split('|').next().unwrap()
}
pub fn parse_rec(s: &str) -> BTreeMap<String, String> {
    payload(s)
        .split(';')
        .filter(|x| !x.is_empty())
        .filter_map(|kv| kv.split_once('=').map(|(k, v)| (k.to_string(), v.to_string())))
        .collect()
}

#[derive(Clone, Copy, PartialEq, Eq, Debug)]
pub enum CmpMode {
    Plain,
    Stamped, // production-like: per consumed name, ignoring the stamp
}

/// The naming / comparison convention of a run.
#[derive(Clone, Copy, PartialEq, Eq, Debug)]
pub enum Conv {
    Plain,   // string comparison, single outputs (the suite's configuration)
    Stamped, // production comparison, records carry a stamp, single outputs
    Prod,    // production comparison + multi-output ids + partial consumption
}
impl Conv {
    pub fn mode(self) -> CmpMode {
        match self {
            Conv::Plain => CmpMode::Plain,
            _ => CmpMode::Stamped,
        }
    }
    pub fn multi(self) -> bool {
        self == Conv::Prod
    }
    pub fn name(self) -> &'static str {
        match self {
            Conv::Plain => "plain",
            Conv::Stamped => "stamped",
            Conv::Prod => "prod",
        }
    }
    pub fn parse(s: &str) -> Conv {
        match s {
            "plain" => Conv::Plain,
            "stamped" => Conv::Stamped,
            "prod" => Conv::Prod,
            _ => panic!("unknown convention {}", s),
        }
    }
}

/// Transcription of python/pypipegraph2/history_comparisons.py (Stamped) or the
/// test strategy (Plain).
pub fn altered(
    mode: CmpMode,
    consumed: &HashMap<String, BTreeSet<String>>,
    up: &str,
    down: &str,
    last: &str,
    cur: &str,
) -> bool {
    match mode {
        CmpMode::Plain => last != cur,
        CmpMode::Stamped => {
            if last == cur {
                return false;
            }
            let l = parse_rec(last);
            let c = parse_rec(cur);
            up.split(":::").any(|n| {
                let relevant = down == "!!!" || consumed.get(down).map(|s| s.contains(n)).unwrap_or(false);
                relevant && l.get(n) != c.get(n)
            })
        }
    }
}

/// what a job computes. inputs: (name, value) of the *used* consumed names, sorted
pub fn job_fn(n: &Node, inputs: &[(String, String)]) -> BTreeMap<String, String> {
    let mut s = format!("/v{}", n.ver);
    for (u, p) in inputs {
        s.push_str(&format!(";{}={}", u, p));
    }
    n.outs
        .iter()
        .map(|o| (o.clone(), format!("{:x}", fnv(&format!("{}{}", o, s)) % n.dom)))
        .collect()
}
pub fn rec_of(m: &BTreeMap<String, String>) -> String {
    m.iter().map(|(k, v)| format!("{}={}", k, v)).collect::<Vec<_>>().join(";")
}

#[derive(Default, Clone, Debug)]
pub struct World {
    pub disk: BTreeMap<String, String>, // output name of Output jobs -> content
    pub temp: BTreeMap<String, String>, // output name of Ephemeral jobs -> content, this evaluation
    pub mem: BTreeMap<String, String>,  // output name of Always jobs -> content, this evaluation
    /// output names of Ephemeral jobs whose temporary file was left behind by an earlier evaluation (never cleaned
    /// up, or garbage of a failed attempt): the file exists for `output_already_present`, its content is not trusted
    pub leftover: std::collections::BTreeSet<String>,
}

pub type History = HashMap<String, String>;

pub fn hist_str(h: &History) -> String {
    let b: BTreeMap<_, _> = h.iter().collect();
    format!("{:?}", b)
}

/// compare two histories: same key set; own output records and per-dependency
/// records under the configured comparison, input-name lists textually
pub fn hist_diff(a: &History, b: &History, cmp: &dyn Fn(&str, &str, &str, &str) -> bool) -> Option<String> {
    for (k, v) in a.iter() {
        match b.get(k) {
            None => return Some(format!("key {} only in first", k)),
            Some(w) => {
                let same = match k.split_once("!!!") {
                    None => !cmp(k, "!!!", v, w),
                    Some((_, "")) => v == w,
                    Some((u, d)) => !cmp(u, d, v, w),
                };
                if !same {
                    return Some(format!("key {}: {} vs {}", k, v, w));
                }
            }
        }
    }
    for k in b.keys() {
        if !a.contains_key(k) {
            return Some(format!("key {} only in second", k));
        }
    }
    None
}
