//! C19: large graphs. One subprocess per (shape, size, cascade); lean O(n+e)
//! driver, world and reference computations; exit status classified by the parent.
use crate::acc::*;
use crate::driver::{err_str, guarded, Ev};
use crate::model::{fnv, History};
use pypipegraph2::verif::{JobOutputResult, VerifStrategy};
use pypipegraph2::{JobKind, PPGEvaluator};
use std::cell::RefCell;
use std::collections::{HashMap, VecDeque};
use std::rc::Rc;
use std::sync::atomic::{AtomicBool, AtomicUsize, Ordering};
use std::sync::{Arc, Mutex};
use std::time::{Duration, Instant};

pub const SHAPES: &[&str] = &["chain_out", "chain_eph2", "chain_alt", "chain_ephlong", "layers", "layers_eph", "star_in", "star_out", "diamonds", "wide_eph", "eph_head", "star_always"];
pub const CASCADES: &[&str] = &["build", "noop", "inval_root", "inval_root_collide", "inval_leaf", "fail_root", "abort_mid"];

struct BigGraph {
    kinds: Vec<JobKind>,
    ups: Vec<Vec<usize>>,
    downs: Vec<Vec<usize>>,
    dom: Vec<u64>,
    ver: Vec<u32>,
    ids: Vec<String>,
    input_list: Vec<String>,
}

/// every consumed input is used, so an invalidation at the root runs through the whole
/// cone (collisions are provoked separately with a one-value domain at the first level)
fn used_big(_u: usize, _d: usize) -> bool {
    true
}

impl BigGraph {
    fn new() -> Self {
        BigGraph { kinds: vec![], ups: vec![], downs: vec![], dom: vec![], ver: vec![], ids: vec![], input_list: vec![] }
    }
    fn add(&mut self, kind: JobKind, ups: &[usize], dom: u64) -> usize {
        let i = self.kinds.len();
        self.kinds.push(kind);
        self.ups.push(ups.to_vec());
        self.downs.push(vec![]);
        for u in ups {
            self.downs[*u].push(i);
        }
        self.dom.push(dom);
        self.ver.push(0);
        self.ids.push(format!("J{}", i));
        i
    }
    fn finish(&mut self) {
        self.input_list = (0..self.kinds.len())
            .map(|i| {
                let mut v: Vec<&str> = self.ups[i].iter().map(|u| self.ids[*u].as_str()).collect();
                v.sort();
                v.join("\n")
            })
            .collect();
    }
    fn n(&self) -> usize {
        self.kinds.len()
    }
    fn compute(&self, i: usize, vals: &[Option<u64>]) -> u64 {
        let mut s = format!("{}/v{}", i, self.ver[i]);
        for u in &self.ups[i] {
            if used_big(*u, i) {
                s.push_str(&format!(";{}={:x}", u, vals[*u].unwrap_or(u64::MAX)));
            }
        }
        fnv(&s) % self.dom[i]
    }
    fn useless(&self) -> Vec<bool> {
        let n = self.n();
        let mut u = vec![false; n];
        for i in (0..n).rev() {
            if self.kinds[i] == JobKind::Ephemeral {
                u[i] = self.downs[i].iter().all(|d| u[*d]);
            }
        }
        u
    }
    fn feeds_always(&self) -> Vec<bool> {
        let n = self.n();
        let mut f = vec![false; n];
        for i in (0..n).rev() {
            if self.kinds[i] == JobKind::Ephemeral {
                f[i] = self.downs[i].iter().any(|d| self.kinds[*d] == JobKind::Always || (self.kinds[*d] == JobKind::Ephemeral && f[*d]));
            }
        }
        f
    }
    fn cone(&self, root: usize) -> Vec<bool> {
        let mut c = vec![false; self.n()];
        let mut st = vec![root];
        while let Some(x) = st.pop() {
            for d in &self.downs[x] {
                if !c[*d] {
                    c[*d] = true;
                    st.push(*d);
                }
            }
        }
        c
    }
}

fn rec(i: usize, v: u64) -> String {
    format!("J{}={:x}", i, v)
}

/// head Always job J0 feeds the first job(s) of every shape
fn make_shape(shape: &str, size: usize, collide: bool) -> BigGraph {
    use JobKind::*;
    let mut g = BigGraph::new();
    let head = g.add(Always, &[], 1_000_000_007);
    let d1 = if collide { 1 } else { 1_000_000_007 };
    let big = 1_000_000_007u64;
    match shape {
        "chain_out" => {
            let mut prev = head;
            for i in 0..size {
                prev = g.add(Output, &[prev], if i == 0 { d1 } else { big });
            }
        }
        "chain_eph2" => {
            // O E E O E E ... O
            let mut prev = head;
            for i in 0..size {
                let k = if i % 3 == 0 || i == size - 1 { Output } else { Ephemeral };
                prev = g.add(k, &[prev], if i == 0 { d1 } else { big });
            }
        }
        "chain_alt" => {
            let mut prev = head;
            for i in 0..size {
                let k = if i % 2 == 0 || i == size - 1 { Output } else { Ephemeral };
                prev = g.add(k, &[prev], if i == 0 { d1 } else { big });
            }
        }
        "chain_ephlong" => {
            let mut prev = head;
            for i in 0..size {
                let k = if i == size - 1 { Output } else { Ephemeral };
                prev = g.add(k, &[prev], if i == 0 { d1 } else { big });
            }
        }
        "layers" | "layers_eph" => {
            let w = ((size as f64).sqrt() as usize).max(2);
            let layers = (size / w).max(2);
            let mut prev: Vec<usize> = vec![head];
            for l in 0..layers {
                let mut cur = vec![];
                for j in 0..w {
                    let mut ups = vec![];
                    for t in 0..3 {
                        let u = prev[(j + t * 7) % prev.len()];
                        if !ups.contains(&u) {
                            ups.push(u);
                        }
                    }
                    let k = if shape == "layers_eph" && l % 2 == 1 && l != layers - 1 { Ephemeral } else { Output };
                    cur.push(g.add(k, &ups, if l == 0 { d1 } else { big }));
                }
                prev = cur;
            }
        }
        "star_in" => {
            let mut roots = vec![];
            for _ in 0..size {
                roots.push(g.add(Output, &[head], d1));
            }
            g.add(Output, &roots, big);
        }
        "star_out" => {
            let c = g.add(Output, &[head], d1);
            for i in 0..size {
                let k = if i % 4 == 3 { Always } else { Output };
                g.add(k, &[c], big);
            }
        }
        "diamonds" => {
            // a -> (b,c) -> d repeated; ephemeral middles
            let mut prev = head;
            let mut i = 0;
            while i < size {
                let b = g.add(Ephemeral, &[prev], if i == 0 { d1 } else { big });
                let c = g.add(Output, &[prev], if i == 0 { d1 } else { big });
                prev = g.add(Output, &[b, c], big);
                i += 3;
            }
        }
        "star_always" => {
            // very wide fan-in of jobs that all run in every evaluation; only the first one ever changes its output
            let mut roots = vec![head];
            for _ in 0..size {
                roots.push(g.add(Always, &[], big));
            }
            g.add(Output, &roots, big);
        }
        "eph_head" => {
            // one Ephemeral on top of a long chain of Outputs: anything that walks "everything below an Ephemeral" gets deep here
            let e = g.add(Ephemeral, &[head], d1);
            let mut prev = e;
            for _ in 0..size {
                prev = g.add(Output, &[prev], big);
            }
        }
        "wide_eph" => {
            // one Ephemeral feeding a wide layer of Ephemerals that are all consumed by an Always job and three Outputs
            // (complete bipartite bottom): rounds in which one node is asked to reconsider from very many places
            let e = g.add(Ephemeral, &[head], d1);
            let mut layer = vec![];
            for _ in 0..size {
                layer.push(g.add(Ephemeral, &[e], big));
            }
            let mut ups = layer.clone();
            ups.push(e);
            g.add(Always, &ups, big);
            for _ in 0..3 {
                g.add(Output, &ups, big);
            }
        }
        _ => panic!("unknown shape {}", shape),
    }
    g.finish();
    g
}

struct BigWorld {
    disk: Vec<Option<u64>>, // Output jobs
    cur: Vec<Option<u64>>,  // any job executed in this evaluation
}

#[derive(Debug, Default, Clone)]
pub struct CaseResult {
    pub shape: String,
    pub size: usize,
    pub cascade: String,
    pub jobs: usize,
    pub ok: bool,
    pub problems: Vec<(String, String)>, // (property, what)
    pub max_depth: u32,
    pub max_signals_x100: u64,
    pub evaluations: usize,
    pub started_total: usize,
    pub ms: u128,
}

pub fn case_json(r: &CaseResult) -> String {
    jobj(&[
        ("shape".into(), jstr(&r.shape)),
        ("size".into(), r.size.to_string()),
        ("cascade".into(), jstr(&r.cascade)),
        ("jobs".into(), r.jobs.to_string()),
        ("ok".into(), (r.ok as u8).to_string()),
        ("problems".into(), jarr(&r.problems.iter().map(|(p, w)| jarr(&[jstr(p), jstr(w)])).collect::<Vec<_>>())),
        ("max_depth".into(), r.max_depth.to_string()),
        ("max_signals_x100".into(), r.max_signals_x100.to_string()),
        ("evaluations".into(), r.evaluations.to_string()),
        ("started_total".into(), r.started_total.to_string()),
        ("ms".into(), r.ms.to_string()),
    ])
}

struct EvalOut {
    started: Vec<bool>,
    nstarted: usize,
    errors: Vec<(String, String)>,
    history: Option<History>,
    upf_after_failure: Option<usize>,
    finished_after_failure: bool,
    aborted: bool,
    max_depth: u32,
    max_signals_x100: u64,
}

/// vector-based transcription of the reference oracles (oracle.rs) for large graphs
fn expected_big(g: &BigGraph, h: &History, disk: &[Option<u64>]) -> (Vec<bool>, Vec<bool>) {
    let n = g.n();
    let useless = g.useless();
    let mut uptodate = vec![false; n];
    let mut currec: Vec<Option<String>> = vec![None; n];
    let mut curval: Vec<Option<u64>> = vec![None; n];
    let mut must = vec![false; n];
    for i in 0..n {
        let id = &g.ids[i];
        let mut ok = h.contains_key(id) && h.get(&format!("{}!!!", id)).map(|x| x.as_str()) == Some(g.input_list[i].as_str());
        if g.kinds[i] == JobKind::Output && disk[i].is_none() {
            ok = false;
        }
        for u in &g.ups[i] {
            match (h.get(&format!("{}!!!{}", g.ids[*u], id)), &currec[*u]) {
                (Some(r), Some(c)) => {
                    if r != c {
                        ok = false
                    }
                }
                _ => ok = false,
            }
        }
        uptodate[i] = ok;
        let parse = |s: &String| -> Option<u64> { s.split_once('=').and_then(|(_, v)| u64::from_str_radix(v, 16).ok()) };
        if useless[i] {
            if ok {
                currec[i] = h.get(id).cloned();
                curval[i] = currec[i].as_ref().and_then(parse);
            }
            continue;
        }
        if g.kinds[i] == JobKind::Always || !ok {
            must[i] = true;
            let v = g.compute(i, &curval);
            curval[i] = Some(v);
            currec[i] = Some(rec(i, v));
        } else {
            currec[i] = h.get(id).cloned();
            curval[i] = currec[i].as_ref().and_then(parse);
        }
    }
    let mut executed = must.clone();
    for i in (0..n).rev() {
        if g.kinds[i] == JobKind::Ephemeral && !executed[i] && !useless[i] && g.downs[i].iter().any(|d| executed[*d]) {
            executed[i] = true;
        }
    }
    (uptodate, executed)
}

fn clean_big(g: &BigGraph) -> Vec<Option<u64>> {
    let mut vals: Vec<Option<u64>> = vec![None; g.n()];
    for i in 0..g.n() {
        vals[i] = Some(g.compute(i, &vals));
    }
    vals
}

#[derive(Clone, Copy, PartialEq)]
enum Fault {
    None,
    FailJob(usize),
    AbortAfter(usize),
}

fn evaluate_big(g: &BigGraph, h: &History, world: &Rc<RefCell<BigWorld>>, fault: Fault, parallel: usize) -> EvalOut {
    let n = g.n();
    {
        let mut w = world.borrow_mut();
        for i in 0..n {
            w.cur[i] = None;
        }
    }
    let w2 = world.clone();
    let idx_of = |id: &str| -> usize { id[1..].parse().unwrap() };
    let lists: Rc<Vec<String>> = Rc::new(g.input_list.clone());
    let lists2 = lists.clone();
    let strat = VerifStrategy {
        present: Box::new(move |q| w2.borrow().disk[idx_of(q)].is_some()),
        altered: Box::new(|_u, _d, a, b| a != b),
        input_list: Box::new(move |id, _| lists2[id[1..].parse::<usize>().unwrap()].clone()),
    };
    let mut ev: Ev = PPGEvaluator::new_with_history(h.clone(), strat);
    for i in 0..n {
        ev.add_node(&g.ids[i], g.kinds[i]);
    }
    for i in 0..n {
        for u in &g.ups[i] {
            ev.depends_on(&g.ids[i], &g.ids[*u]);
        }
    }
    pypipegraph2::verif::set_transition_log(false);
    pypipegraph2::verif::take_max_depth();
    let nedges: usize = g.ups.iter().map(|u| u.len()).sum();
    let budget: u64 = 2000 + 400 * (n as u64 + nedges as u64);
    pypipegraph2::verif::set_signal_budget(Some(budget));
    pypipegraph2::verif::take_signal_count();
    let mut max_signals: u64 = 0;
    let mut out = EvalOut { started: vec![false; n], nstarted: 0, errors: vec![], history: None, upf_after_failure: None, finished_after_failure: false, aborted: false, max_depth: 0, max_signals_x100: 0 };
    macro_rules! call {
        ($name:expr, $e:expr) => {{
            let res = guarded(|| $e);
            max_signals = max_signals.max(pypipegraph2::verif::take_signal_count());
            match res {
                Ok(Ok(())) => true,
                Ok(Err(e)) => {
                    out.errors.push(("C06".into(), format!("{} -> {}", $name, err_str(&e).chars().take(200).collect::<String>())));
                    // the error leaves the evaluation stuck (C05): not finished, nothing ready
                    if !ev.is_finished() && ev.next_job_ready_to_run().is_none() && ev.query_jobs_running().is_empty() {
                        out.errors.push(("C05".into(), format!("stall after the error in {}: not finished, nothing ready, nothing running", $name)));
                    }
                    false
                }
                Err(p) if p.contains("verif: signal budget exceeded") => {
                    out.errors.push(("C19".into(), format!("{}: the engine handled more than {} signals inside this one call ({} jobs, {} dependencies): run-away signal processing", $name, budget, n, nedges)));
                    false
                }
                Err(p) => {
                    out.errors.push(("C06".into(), format!("{} -> {}", $name, p.chars().take(200).collect::<String>())));
                    false
                }
            }
        }};
    }
    if !call!("startup", ev.event_startup()) {
        out.max_depth = pypipegraph2::verif::take_max_depth();
        out.max_signals_x100 = max_signals * 100 / (n as u64 + nedges as u64 + 1);
        return out;
    }
    let mut running: VecDeque<usize> = VecDeque::new();
    let mut succeeded = 0usize;
    let mut guard = 0usize;
    // first build: the set form of the ready report must list every job whose upstreams have all succeeded (C19:
    // wide layers are offered like narrow ones); checked after startup and after 1, 2, 4, 8, ... completions
    let first_build = h.is_empty();
    let useless = g.useless();
    let mut done: Vec<bool> = vec![false; n];
    let mut next_check = 0usize;
    'outer: loop {
        guard += 1;
        if first_build && succeeded >= next_check && out.errors.is_empty() {
            next_check = if next_check == 0 { 1 } else { next_check * 2 };
            let expected = (0..n).filter(|j| !out.started[*j] && !useless[*j] && g.ups[*j].iter().all(|u| done[*u])).count();
            let got = ev.query_ready_to_run().len();
            if got != expected {
                out.errors.push(("C19".into(), format!("after {} completions of the first build query_ready_to_run() lists {} jobs, but {} unstarted jobs have all their upstreams done", succeeded, got, expected)));
                break;
            }
        }
        if guard > 4 * n + 10 {
            out.errors.push(("C05".into(), "driver exceeded 4*jobs+10 iterations".into()));
            break;
        }
        if ev.is_finished() {
            if ev.next_job_ready_to_run().is_some() || !running.is_empty() {
                out.errors.push(("C05".into(), "finished but something ready or running".into()));
            }
            break;
        }
        if let Fault::AbortAfter(k) = fault {
            if succeeded >= k {
                out.aborted = true;
                // report the running jobs failed first, as the python runner does
                while let Some(j) = running.pop_front() {
                    if g.kinds[j] == JobKind::Output {
                        world.borrow_mut().disk[j] = None;
                    }
                    if !call!(format!("fail {}", j), ev.event_job_finished_failure(&g.ids[j])) {
                        break 'outer;
                    }
                }
                if !call!("abort", ev.abort_remaining()) {
                    break;
                }
                if !ev.is_finished() || ev.next_job_ready_to_run().is_some() || !ev.query_jobs_running().is_empty() {
                    out.errors.push(("C10".into(), format!("after abort finished={} next_ready={:?}", ev.is_finished(), ev.next_job_ready_to_run())));
                }
                break;
            }
        }
        // start up to `parallel` jobs
        while running.len() < parallel {
            match ev.next_job_ready_to_run() {
                None => break,
                Some(id) => {
                    let j = idx_of(&id);
                    if out.started[j] {
                        out.errors.push(("C05".into(), format!("{} offered after it was started", id)));
                        break 'outer;
                    }
                    // inputs materialised? (C02 lean)
                    for u in &g.ups[j] {
                        let w = world.borrow();
                        let have = match g.kinds[*u] {
                            JobKind::Output => w.disk[*u].is_some(),
                            _ => w.cur[*u].is_some(),
                        };
                        if !have {
                            out.errors.push(("C02".into(), format!("{} offered but upstream {} ({:?}) not materialised", id, g.ids[*u], g.kinds[*u])));
                        }
                        if let JobOutputResult::Done(_) = ev.get_job_output(&g.ids[*u]) {
                        } else {
                            out.errors.push(("C02".into(), format!("{} offered but engine cannot report output of {}", id, g.ids[*u])));
                        }
                    }
                    if !call!(format!("start {}", id), ev.event_now_running(&id)) {
                        break 'outer;
                    }
                    out.started[j] = true;
                    out.nstarted += 1;
                    running.push_back(j);
                }
            }
        }
        // cleanups
        let cl = ev.query_ready_for_cleanup();
        for id in cl {
            if !call!(format!("cleanup {}", id), ev.event_job_cleanup_done(&id)) {
                break 'outer;
            }
            let j = idx_of(&id);
            world.borrow_mut().cur[j] = None;
        }
        // finish one (alternate FIFO / LIFO for out-of-order completion)
        let j = if guard % 2 == 0 { running.pop_front() } else { running.pop_back() };
        match j {
            None => {
                if !ev.is_finished() && ev.next_job_ready_to_run().is_none() {
                    out.errors.push(("C05".into(), "stall: not finished, nothing ready, nothing running".into()));
                    break;
                }
            }
            Some(j) => {
                if fault == Fault::FailJob(j) {
                    if g.kinds[j] == JobKind::Output {
                        world.borrow_mut().disk[j] = None;
                    }
                    if !call!(format!("fail {}", j), ev.event_job_finished_failure(&g.ids[j])) {
                        break;
                    }
                    out.upf_after_failure = Some(ev.query_upstream_failed().len());
                    out.finished_after_failure = ev.is_finished();
                } else {
                    let v = {
                        let w = world.borrow();
                        let vals: Vec<Option<u64>> = Vec::new();
                        let _ = vals;
                        // inputs: disk for outputs, cur for others
                        let mut s = format!("{}/v{}", j, g.ver[j]);
                        for u in &g.ups[j] {
                            if used_big(*u, j) {
                                let val = match g.kinds[*u] {
                                    JobKind::Output => w.disk[*u],
                                    _ => w.cur[*u],
                                };
                                s.push_str(&format!(";{}={:x}", u, val.unwrap_or(u64::MAX)));
                            }
                        }
                        fnv(&s) % g.dom[j]
                    };
                    {
                        let mut w = world.borrow_mut();
                        w.cur[j] = Some(v);
                        if g.kinds[j] == JobKind::Output {
                            w.disk[j] = Some(v);
                        }
                    }
                    if !call!(format!("ok {}", j), ev.event_job_finished_success(&g.ids[j], rec(j, v))) {
                        break;
                    }
                    succeeded += 1;
                    done[j] = true;
                }
            }
        }
    }
    out.max_depth = pypipegraph2::verif::take_max_depth();
    out.max_signals_x100 = max_signals * 100 / (n as u64 + nedges as u64 + 1);
    if out.errors.is_empty() && ev.is_finished() {
        match guarded(|| ev.new_history()) {
            Ok(Ok(h)) => out.history = Some(h),
            Ok(Err(e)) => out.errors.push(("C06".into(), format!("new_history -> {}", err_str(&e).chars().take(200).collect::<String>()))),
            Err(p) => out.errors.push(("C06".into(), format!("new_history -> {}", p.chars().take(200).collect::<String>()))),
        }
    }
    out
}

fn check_exact(r: &mut CaseResult, what: &str, g: &BigGraph, started: &[bool], expected: &[bool]) {
    let mut extra = vec![];
    let mut missing = vec![];
    for i in 0..g.n() {
        if started[i] && !expected[i] {
            extra.push(i);
        }
        if !started[i] && expected[i] {
            missing.push(i);
        }
    }
    if !extra.is_empty() || !missing.is_empty() {
        r.problems.push((
            "C19".into(),
            format!("{}: executed set differs from the analytic expectation: {} extra (e.g. {:?}), {} missing (e.g. {:?})", what, extra.len(), extra.iter().take(5).map(|i| format!("{}:{:?}", g.ids[*i], g.kinds[*i])).collect::<Vec<_>>(), missing.len(), missing.iter().take(5).map(|i| format!("{}:{:?}", g.ids[*i], g.kinds[*i])).collect::<Vec<_>>()),
        ));
    }
}

fn check_disk(r: &mut CaseResult, what: &str, g: &BigGraph, disk: &[Option<u64>]) {
    let clean = clean_big(g);
    let mut bad = 0;
    let mut first = None;
    for i in 0..g.n() {
        if g.kinds[i] == JobKind::Output && disk[i] != clean[i] {
            bad += 1;
            if first.is_none() {
                first = Some(i);
            }
        }
    }
    if bad > 0 {
        r.problems.push(("C19".into(), format!("{}: {} outputs differ from a clean build (first: {})", what, bad, g.ids[first.unwrap()])));
    }
}

pub fn run_case(shape: &str, size: usize, cascade: &str) -> CaseResult {
    let t0 = Instant::now();
    let collide = cascade == "inval_root_collide";
    let mut g = make_shape(shape, size, collide);
    let n = g.n();
    let mut r = CaseResult { shape: shape.into(), size, cascade: cascade.into(), jobs: n, ..Default::default() };
    let world = Rc::new(RefCell::new(BigWorld { disk: vec![None; n], cur: vec![None; n] }));
    let parallel = 1 + (size % 4);
    let absorb = |r: &mut CaseResult, what: &str, o: &EvalOut| {
        r.evaluations += 1;
        r.started_total += o.nstarted;
        r.max_depth = r.max_depth.max(o.max_depth);
        r.max_signals_x100 = r.max_signals_x100.max(o.max_signals_x100);
        for (p, e) in &o.errors {
            r.problems.push((p.clone(), format!("{}: {}", what, e)));
        }
    };
    // first build
    let h0 = History::new();
    let disk0 = world.borrow().disk.clone();
    let (_u0, exp0) = expected_big(&g, &h0, &disk0);
    let o0 = evaluate_big(&g, &h0, &world, Fault::None, parallel);
    absorb(&mut r, "first build", &o0);
    if o0.errors.is_empty() {
        check_exact(&mut r, "first build", &g, &o0.started, &exp0);
        check_disk(&mut r, "first build", &g, &world.borrow().disk);
    }
    let h1 = match o0.history {
        Some(h) => h,
        None => {
            r.ok = r.problems.is_empty();
            r.ms = t0.elapsed().as_millis();
            return r;
        }
    };
    if cascade != "build" {
        let last_output = (0..n).rev().find(|i| g.kinds[*i] == JobKind::Output).unwrap();
        match cascade {
            "noop" => {}
            "inval_root" | "inval_root_collide" | "fail_root" | "abort_mid" => g.ver[0] = 1,
            "inval_leaf" => world.borrow_mut().disk[last_output] = None,
            _ => panic!("unknown cascade {}", cascade),
        }
        let disk1 = world.borrow().disk.clone();
        let (up1, exp1) = expected_big(&g, &h1, &disk1);
        match cascade {
            "noop" => {
                let o = evaluate_big(&g, &h1, &world, Fault::None, parallel);
                absorb(&mut r, "re-evaluation", &o);
                if o.errors.is_empty() {
                    let fa = g.feeds_always();
                    let want: Vec<bool> = (0..n).map(|i| g.kinds[i] == JobKind::Always || fa[i]).collect();
                    check_exact(&mut r, "re-evaluation of the up to date project", &g, &o.started, &want);
                    check_exact(&mut r, "re-evaluation (reference executed set)", &g, &o.started, &exp1);
                    if let Some(h2) = &o.history {
                        if *h2 != h1 {
                            r.problems.push(("C19".into(), "re-evaluation returned a different history".into()));
                        }
                    }
                }
            }
            "inval_root" | "inval_root_collide" | "inval_leaf" => {
                let o = evaluate_big(&g, &h1, &world, Fault::None, parallel);
                absorb(&mut r, cascade, &o);
                if o.errors.is_empty() {
                    check_exact(&mut r, cascade, &g, &o.started, &exp1);
                    check_disk(&mut r, cascade, &g, &world.borrow().disk);
                    let nexp = exp1.iter().filter(|x| **x).count();
                    if cascade == "inval_root" && nexp < n / 2 {
                        r.problems.push(("HARNESS".into(), format!("inval_root expected to re-execute most of the cone but the reference says {}", nexp)));
                    }
                    if cascade == "inval_root_collide" && nexp > n / 2 + 2 && shape != "star_out" && shape != "star_in" && shape != "wide_eph" && shape != "star_always" {
                        r.problems.push(("HARNESS".into(), format!("colliding outputs should stop the cascade early but the reference says {}", nexp)));
                    }
                    let _ = &up1;
                }
            }
            "fail_root" => {
                let o = evaluate_big(&g, &h1, &world, Fault::FailJob(0), parallel);
                absorb(&mut r, cascade, &o);
                if o.errors.is_empty() {
                    let cone = g.cone(0);
                    let useless = g.useless();
                    let want = (0..n).filter(|i| cone[*i] && !useless[*i]).count();
                    match o.upf_after_failure {
                        Some(k) if k == want => {}
                        other => r.problems.push(("C19".into(), format!("failure at the root: {:?} jobs upstream-failed right after the call, expected the whole cone {}", other, want))),
                    }
                    // (in `star_always` the other roots are independent Always jobs: they run as well)
                    if o.nstarted != 1 && shape != "star_always" {
                        r.problems.push(("C19".into(), format!("failure at the root: {} jobs started, expected only the root", o.nstarted)));
                    }
                    if let Some(h2) = &o.history {
                        // never-started jobs keep their records (C09 sample)
                        let mut lost = 0;
                        for (k, v) in h1.iter() {
                            if k == "J0" || k == "J0!!!" {
                                continue;
                            }
                            if h2.get(k) != Some(v) {
                                lost += 1;
                            }
                        }
                        if lost > 0 {
                            r.problems.push(("C19".into(), format!("failure at the root: {} records of never-started jobs lost or changed", lost)));
                        }
                    }
                }
            }
            "abort_mid" => {
                let nexp = exp1.iter().filter(|x| **x).count();
                let o = evaluate_big(&g, &h1, &world, Fault::AbortAfter(nexp / 2), parallel);
                absorb(&mut r, cascade, &o);
                if !o.aborted {
                    r.problems.push(("HARNESS".into(), "abort point never reached".into()));
                }
                if let (true, Some(h2)) = (o.errors.is_empty(), o.history) {
                    let o2 = evaluate_big(&g, &h2, &world, Fault::None, parallel);
                    absorb(&mut r, "resume after abort", &o2);
                    if o2.errors.is_empty() {
                        check_disk(&mut r, "resume after abort", &g, &world.borrow().disk);
                        for i in 0..n {
                            if o2.started[i] && !exp1[i] {
                                r.problems.push(("C19".into(), format!("resume executed {} which the uninterrupted evaluation would not", g.ids[i])));
                                break;
                            }
                            if o2.started[i] && o.started[i] && g.kinds[i] == JobKind::Output && world.borrow().cur[i].is_some() && i != 0 {
                                // re-executed an output that was started before the abort: only allowed if it had not succeeded
                            }
                        }
                    }
                }
            }
            _ => {}
        }
    }
    r.ok = r.problems.is_empty();
    r.ms = t0.elapsed().as_millis();
    r
}

// ---------------------------------------------------------------- parent side
fn parse_field<'a>(s: &'a str, key: &str) -> Option<&'a str> {
    let k = format!("\"{}\":", key);
    let i = s.find(&k)? + k.len();
    let rest = &s[i..];
    let end = rest.find([',', '}']).unwrap_or(rest.len());
    Some(rest[..end].trim_matches('"'))
}

pub fn run_sweep(thorough: bool, seed: u64, nthreads: usize, deadline: Instant, timed_out: &Arc<AtomicBool>, acc: &mut Acc) {
    let sizes: Vec<usize> = if thorough { vec![100, 300, 1000, 3000, 10000, 30000] } else { vec![100, 300, 1000, 3000] };
    let mut cases: Vec<(String, usize, String)> = vec![];
    for sh in SHAPES {
        for sz in &sizes {
            for c in CASCADES {
                // vary sizes a little with the seed so that different runs probe different sizes
                let s = sz + (seed as usize % 7) * (sz / 50);
                cases.push((sh.to_string(), s, c.to_string()));
            }
        }
    }
    if thorough {
        // beyond "tens of thousands": probes the known stack limit of all-Ephemeral chains (known_findings.txt)
        cases.push(("chain_ephlong".to_string(), 60000, "build".to_string()));
        // "scales easily to a few 100.000 jobs" (README): 100 000 jobs for the shapes without long runs of Ephemerals
        for sh in ["chain_out", "chain_alt", "layers", "star_in", "star_out", "diamonds", "eph_head"] {
            for c in CASCADES {
                cases.push((sh.to_string(), 100_000 + (seed as usize % 7) * 1000, c.to_string()));
            }
        }
        for sh in ["chain_out", "eph_head", "layers"] {
            for c in CASCADES {
                cases.push((sh.to_string(), 300_000 + (seed as usize % 7) * 1000, c.to_string()));
            }
        }
    }
    // large first
    cases.sort_by_key(|c| std::cmp::Reverse(c.1));
    let exe = std::env::current_exe().unwrap();
    let next = Arc::new(AtomicUsize::new(0));
    let cases = Arc::new(cases);
    let results: Arc<Mutex<Vec<(usize, String, Option<i32>, bool)>>> = Arc::new(Mutex::new(vec![]));
    let mut handles = vec![];
    let per_case = Duration::from_secs(if thorough { 1500 } else { 240 });
    for _ in 0..nthreads.min(12) {
        let next = next.clone();
        let cases = cases.clone();
        let results = results.clone();
        let exe = exe.clone();
        let timed_out = timed_out.clone();
        handles.push(std::thread::spawn(move || loop {
            let i = next.fetch_add(1, Ordering::Relaxed);
            if i >= cases.len() {
                break;
            }
            if Instant::now() > deadline {
                timed_out.store(true, Ordering::Relaxed);
                break;
            }
            let (sh, sz, c) = &cases[i];
            let mut child = std::process::Command::new(&exe)
                .arg("sweep-case")
                .arg(sh)
                .arg(sz.to_string())
                .arg(c)
                .stdout(std::process::Stdio::piped())
                .stderr(std::process::Stdio::null())
                .spawn()
                .unwrap();
            let t0 = Instant::now();
            let mut killed = false;
            let status = loop {
                match child.try_wait().unwrap() {
                    Some(st) => break st,
                    None => {
                        if t0.elapsed() > per_case {
                            let _ = child.kill();
                            killed = true;
                            break child.wait().unwrap();
                        }
                        std::thread::sleep(Duration::from_millis(20));
                    }
                }
            };
            let mut out = String::new();
            use std::io::Read;
            if let Some(mut so) = child.stdout.take() {
                let _ = so.read_to_string(&mut out);
            }
            results.lock().unwrap().push((i, out, status.code(), killed));
        }));
    }
    for h in handles {
        let _ = h.join();
    }
    let results = results.lock().unwrap();
    let mut depth_by_size: HashMap<usize, u32> = HashMap::new();
    for (i, out, code, killed) in results.iter() {
        let (sh, sz, c) = &cases[*i];
        acc.evaluations += 1;
        acc.primary += 1;
        acc.cases += 1;
        let args = vec!["one".to_string(), "sweep".to_string(), sh.clone(), sz.to_string(), c.clone()];
        if *killed {
            acc.inconclusive.push(format!("sweep case {} {} {} exceeded its wall-clock watchdog", sh, sz, c));
            continue;
        }
        match code {
            None => {
                // died on a signal (stack overflow -> SIGSEGV / SIGABRT)
                let bucket = if *sz >= 50000 { ">=50000" } else { "<50000" };
                acc.violation(Witness { prop: "C19".into(), rule: "subprocess-died-on-signal".into(), sig: format!("subprocess-died-on-signal|{}:{}:{}", sh, bucket, c), detail: format!("{} with {} jobs, cascade {}: the process died on a signal (stack exhaustion / abort)", sh, sz, c), replay_args: args.clone(), trace: out.clone() });
                acc.violation(Witness { prop: "C06".into(), rule: "subprocess-died-on-signal".into(), sig: format!("subprocess-died-on-signal|{}", c), detail: format!("{} with {} jobs, cascade {}: the process died on a signal", sh, sz, c), replay_args: args, trace: out.clone() });
            }
            Some(0) => {
                let line = out.lines().last().unwrap_or("");
                let ok = parse_field(line, "ok") == Some("1");
                let evals: u64 = parse_field(line, "evaluations").and_then(|x| x.parse().ok()).unwrap_or(0);
                acc.evaluations += evals.saturating_sub(1);
                let depth: u32 = parse_field(line, "max_depth").and_then(|x| x.parse().ok()).unwrap_or(0);
                let jobs: usize = parse_field(line, "jobs").and_then(|x| x.parse().ok()).unwrap_or(0);
                let e = depth_by_size.entry(*sz).or_insert(0);
                *e = (*e).max(depth);
                acc.max("c19_max_jobs", jobs as u64);
                acc.max("max_signal_depth", depth as u64);
                acc.max("max_signals_per_call_x100_per_size", parse_field(line, "max_signals_x100").and_then(|x| x.parse().ok()).unwrap_or(0));
                if ok {
                    acc.nontrivial("C19", fnv(&format!("{}{}{}", sh, sz, c)));
                    if *sz >= 1000 {
                        acc.set("c19_completed_at_1000_plus", format!("{}/{}", sh, c));
                    }
                    acc.sample("C19", || line.to_string());
                } else {
                    // problems: [[prop, what], ...]
                    let probs = line.split("\"problems\":").nth(1).unwrap_or("");
                    let is_harness = probs.contains("\"HARNESS\"");
                    let what: String = probs.chars().take(600).collect();
                    if is_harness {
                        acc.inconclusive.push(format!("sweep case {} {} {}: harness expectation not met: {}", sh, sz, c, what));
                    } else {
                        let site = if what.contains("run-away signal processing") { "signal-budget".to_string() } else if what.contains("Depth ConsiderJob") { "depth-guard".to_string() } else if what.contains("InternalError") { "internal-error".to_string() } else if what.contains("PANIC") { "panic".to_string() } else { "expectation".to_string() };
                        acc.violation(Witness { prop: "C19".into(), rule: "large-graph-misbehaves".into(), sig: format!("large-graph-misbehaves|{}:{}", c, site), detail: format!("{} with {} jobs, cascade {}: {}", sh, sz, c, what), replay_args: args.clone(), trace: line.to_string() });
                        // problems the lean driver tagged with another property's rule (progress, materialised inputs, abort)
                        for tag in ["C02", "C05", "C10"] {
                            if probs.contains(&format!("[\"{}\"", tag)) {
                                acc.violation(Witness { prop: tag.into(), rule: "large-graph-misbehaves".into(), sig: format!("large-graph-misbehaves|{}:{}", c, tag), detail: format!("{} with {} jobs, cascade {}: {}", sh, sz, c, what), replay_args: args.clone(), trace: line.to_string() });
                            }
                        }
                        if c == "noop" {
                            // the up-to-date re-evaluation cascade is C12 at scale
                            acc.violation(Witness { prop: "C12".into(), rule: "large-graph-misbehaves".into(), sig: format!("large-graph-misbehaves|noop:{}", site), detail: format!("{} with {} jobs, re-evaluation of the unchanged project: {}", sh, sz, what), replay_args: args.clone(), trace: line.to_string() });
                        }
                        if site == "signal-budget" {
                            acc.violation(Witness { prop: "C05".into(), rule: "large-graph-misbehaves".into(), sig: format!("large-graph-misbehaves|{}:signal-budget", c), detail: format!("{} with {} jobs, cascade {}: {}", sh, sz, c, what), replay_args: args.clone(), trace: line.to_string() });
                        }
                        if site != "expectation" && site != "signal-budget" {
                            acc.violation(Witness { prop: "C06".into(), rule: "large-graph-error".into(), sig: format!("large-graph-error|{}:{}", c, site), detail: format!("{} with {} jobs, cascade {}: {}", sh, sz, c, what), replay_args: args, trace: line.to_string() });
                        }
                    }
                }
            }
            Some(x) => {
                acc.inconclusive.push(format!("sweep case {} {} {}: subprocess exit code {} (harness error): {}", sh, sz, c, x, out.chars().take(200).collect::<String>()));
            }
        }
    }
    let mut d: Vec<(usize, u32)> = depth_by_size.into_iter().collect();
    d.sort();
    acc.set("c19_max_signal_depth_by_size", format!("{:?}", d));
}
