//! ppgmon - runtime monitors for the pypipegraph2 evaluation engine.
//!
//!   ppgmon run <PROP> <quick|thorough> <seed> <out.json>   workloads of one property, all monitors on
//!   ppgmon one chain <conv> <family> <maxn> <seed> <flags>  replay one chain verbosely
//!   ppgmon one meta <family> <maxn> <seed>                  replay one plain-vs-stamped pair
//!   ppgmon one exh <n> <graph-index> <phase>                replay one small-scope graph
//!   ppgmon one scenario <name>                              replay one regression scenario
//!   ppgmon sweep-case <shape> <size> <cascade>              (subprocess of the C19 sweep)
mod acc;
mod chain;
mod driver;
mod exhaustive;
mod model;
mod oracle;
mod pybridge;
mod scenarios;
mod sweep;

use acc::*;
use chain::*;
use driver::Misuse;
use model::*;
use std::sync::atomic::{AtomicBool, AtomicU64, Ordering};
use std::sync::{Arc, Mutex};
use std::time::{Duration, Instant};

#[derive(Clone, Debug)]
pub enum Work {
    Chains { cfg: ChainCfg, n: u64 },
    Meta { family: Family, maxn: usize, n: u64 },
    Exhaustive { n: usize, phase: exhaustive::Phase, stride: u64 },
    Scenarios,
    Sweep { thorough: bool },
    /// chains replayed call by call through the real extension module (lib.rs, StrategyForPython, history_comparisons.py)
    PyBridge { cfg: ChainCfg, n: u64 },
}

fn bridge_injectf(conv: Conv, family: Family, maxn: usize, n: u64) -> Work {
    let mut cfg = ChainCfg::new(conv, family, maxn);
    cfg.twins = false;
    cfg.export = true;
    cfg.inject = true;
    cfg.inject_with_faults = true;
    Work::PyBridge { cfg, n }
}

fn bridge(conv: Conv, family: Family, maxn: usize, n: u64, inject: bool, misuse: bool) -> Work {
    let mut cfg = ChainCfg::new(conv, family, maxn);
    cfg.twins = false;
    cfg.export = true;
    cfg.inject = inject;
    if misuse {
        cfg.misuse = Misuse::Random(0.3);
    }
    Work::PyBridge { cfg, n }
}

fn chains(conv: Conv, family: Family, maxn: usize, n: u64) -> Work {
    Work::Chains { cfg: ChainCfg::new(conv, family, maxn), n }
}

/// the workloads each property's check runs (all monitors are always on; only the
/// property's own monitors decide its verdict)
fn workloads(prop: &str, thorough: bool) -> Vec<Work> {
    use Conv::*;
    use Family::*;
    let k: u64 = if thorough { 24 } else { 3 };
    let mut w: Vec<Work> = vec![Work::Scenarios];
    let exh = |w: &mut Vec<Work>, phase: exhaustive::Phase| {
        if thorough {
            w.push(Work::Exhaustive { n: 3, phase, stride: 1 });
            w.push(Work::Exhaustive { n: 4, phase, stride: 1 });
            // a sample of the 248 832 five-job graphs (offset = seed mod stride), all schedules each
            let stride5 = match phase {
                exhaustive::Phase::Edits => 256,
                _ => 2048,
            };
            w.push(Work::Exhaustive { n: 5, phase, stride: stride5 });
        } else {
            w.push(Work::Exhaustive { n: 3, phase, stride: 1 });
            w.push(Work::Exhaustive { n: 4, phase, stride: 16 });
        }
    };
    match prop {
        "C01" => {
            // final consumers with a second, failing upstream: a stale result only shows evaluations later (C01-10)
            w.push(chains(Plain, EphFail, 4, 10000 * k));
            w.push(chains(Stamped, EphFail, 4, 4000 * k));
            w.push(bridge(Prod, Random, 8, 600 * k, false, false));
            w.push(bridge(Prod, Rename, 6, 500 * k, false, false));
            w.push(bridge(Prod, KindFlip, 8, 400 * k, false, false));
            w.push(chains(Prod, KindFlip, 8, 5000 * k));
            w.push(chains(Plain, KindFlip, 8, 4000 * k));
            w.push(chains(Prod, MultiPart, 4, 5000 * k));
            w.push(chains(Plain, Random, 8, 12000 * k));
            w.push(chains(Stamped, Random, 8, 8000 * k));
            w.push(chains(Prod, Random, 8, 12000 * k));
            w.push(chains(Prod, Rename, 6, 12000 * k));
            w.push(chains(Plain, EphChain, 4, 8000 * k));
            w.push(chains(Plain, Random, 12, 3000 * k));
            exh(&mut w, exhaustive::Phase::Edits);
        }
        "C02" => {
            w.push(bridge(Prod, Random, 8, 500 * k, false, false));
            w.push(bridge(Stamped, EphChain, 4, 500 * k, false, false));
            // large graphs (subprocesses): the lean driver checks progress / materialised inputs / quiescence after abort there too
            w.push(Work::Sweep { thorough: false });
            w.push(chains(Plain, EphChain, 4, 16000 * k));
            w.push(chains(Stamped, EphChain, 4, 8000 * k));
            w.push(chains(Prod, EphChain, 4, 8000 * k));
            w.push(chains(Plain, Random, 8, 10000 * k));
            w.push(chains(Plain, ValidatedEph, 4, 6000 * k));
            w.push(chains(Plain, Random, 12, 3000 * k));
            exh(&mut w, exhaustive::Phase::Edits);
        }
        "C03" => {
            w.push(chains(Prod, KindFlip, 8, 5000 * k));
            w.push(chains(Prod, MultiPart, 4, 6000 * k));
            w.push(bridge(Prod, MultiPart, 4, 800 * k, false, false));
            // a validated Ephemeral that changes its output is rejected = a failed attempt: its records must not vouch afterwards
            for (conv, fam, n) in [(Plain, ValidatedEph, 5000u64), (Stamped, ValidatedEph, 3000), (Plain, EphChain, 3000)] {
                let mut c = ChainCfg::new(conv, fam, 4);
                c.inject = true;
                w.push(Work::Chains { cfg: c, n: n * k });
            }
            w.push(bridge(Prod, Random, 8, 600 * k, false, false));
            w.push(bridge(Prod, Rename, 6, 600 * k, false, false));
            w.push(chains(Plain, Random, 8, 12000 * k));
            w.push(chains(Stamped, Random, 8, 8000 * k));
            w.push(chains(Prod, Random, 8, 10000 * k));
            w.push(chains(Plain, FailHist, 7, 10000 * k));
            w.push(chains(Prod, Rename, 6, 10000 * k));
            w.push(chains(Stamped, ValidatedEph, 4, 6000 * k));
            w.push(chains(Plain, EphFail, 4, 12000 * k));
            w.push(chains(Stamped, EphFail, 4, 6000 * k));
            exh(&mut w, exhaustive::Phase::Edits);
        }
        "C04" => {
            w.push(chains(Prod, KindFlip, 8, 5000 * k));
            w.push(chains(Prod, MultiPart, 4, 6000 * k));
            w.push(bridge(Prod, MultiPart, 4, 800 * k, false, false));
            w.push(bridge(Prod, Random, 8, 600 * k, false, false));
            w.push(bridge(Prod, Rename, 6, 600 * k, false, false));
            w.push(chains(Plain, Random, 8, 12000 * k));
            w.push(chains(Stamped, Random, 8, 10000 * k));
            w.push(chains(Prod, Random, 8, 12000 * k));
            w.push(chains(Prod, Rename, 6, 10000 * k));
            w.push(chains(Plain, EphChain, 4, 8000 * k));
            w.push(chains(Stamped, ValidatedEph, 4, 6000 * k));
            exh(&mut w, exhaustive::Phase::Edits);
        }
        "C05" => {
            w.push(bridge(Prod, Random, 8, 500 * k, false, false));
            w.push(bridge(Stamped, LateFail, 4, 500 * k, false, false));
            // large graphs (subprocesses): the lean driver checks progress / materialised inputs / quiescence after abort there too
            w.push(Work::Sweep { thorough: false });
            w.push(chains(Plain, Random, 8, 14000 * k));
            w.push(chains(Stamped, Random, 12, 6000 * k));
            w.push(chains(Prod, Random, 8, 8000 * k));
            w.push(chains(Plain, EphChain, 4, 8000 * k));
            w.push(chains(Plain, LateFail, 4, 16000 * k));
            w.push(chains(Stamped, LateFail, 4, 6000 * k));
            w.push(chains(Plain, EphFail, 4, 6000 * k));
            exh(&mut w, exhaustive::Phase::Faults);
            exh(&mut w, exhaustive::Phase::Edits);
        }
        "C06" => {
            w.push(chains(Prod, KindFlip, 8, 5000 * k));
            w.push(chains(Stamped, KindFlip, 8, 3000 * k));
            w.push(bridge(Prod, FailHist, 7, 600 * k, false, false));
            w.push(bridge(Plain, ValidatedEph, 4, 400 * k, true, false));
            w.push(bridge(Plain, Random, 8, 400 * k, false, false));
            w.push(bridge(Prod, Rename, 6, 600 * k, false, false));
            w.push(bridge(Stamped, LateFail, 4, 400 * k, false, false));
            w.push(chains(Plain, FailHist, 7, 14000 * k));
            w.push(chains(Stamped, FailHist, 7, 8000 * k));
            w.push(chains(Prod, FailHist, 7, 8000 * k));
            w.push(chains(Plain, LateFail, 4, 10000 * k));
            w.push(chains(Plain, Random, 8, 8000 * k));
            w.push(chains(Prod, Rename, 6, 8000 * k));
            w.push(chains(Plain, AbortOffered, 7, 6000 * k));
            w.push(chains(Plain, EphChain, 4, 5000 * k));
            w.push(chains(Plain, Random, 12, 3000 * k));
            exh(&mut w, exhaustive::Phase::Faults);
            // large graphs (subprocesses): internal limits are internal errors under legal use
            w.push(Work::Sweep { thorough: false });
        }
        "C07" => {
            w.push(bridge(Stamped, LateFail, 4, 600 * k, false, false));
            w.push(bridge(Prod, FailHist, 7, 500 * k, false, false));
            w.push(chains(Plain, Random, 8, 12000 * k));
            w.push(chains(Plain, LateFail, 4, 24000 * k));
            w.push(chains(Stamped, LateFail, 4, 8000 * k));
            w.push(chains(Plain, EphFail, 4, 8000 * k));
            w.push(chains(Plain, FailHist, 7, 8000 * k));
            w.push(chains(Stamped, Random, 8, 6000 * k));
            w.push(chains(Prod, Random, 8, 6000 * k));
            exh(&mut w, exhaustive::Phase::Faults);
        }
        "C08" => {
            w.push(bridge(Prod, FailHist, 7, 600 * k, false, false));
            w.push(bridge(Stamped, AbortOffered, 7, 500 * k, false, false));
            // a validated Ephemeral that changes its output is rejected = a failed attempt: its records must not vouch afterwards
            for (conv, fam, n) in [(Plain, ValidatedEph, 5000u64), (Stamped, ValidatedEph, 3000), (Plain, EphChain, 3000)] {
                let mut c = ChainCfg::new(conv, fam, 4);
                c.inject = true;
                w.push(Work::Chains { cfg: c, n: n * k });
            }
            w.push(chains(Plain, FailHist, 7, 14000 * k));
            w.push(chains(Stamped, FailHist, 7, 8000 * k));
            w.push(chains(Prod, FailHist, 7, 8000 * k));
            w.push(chains(Plain, Random, 8, 8000 * k));
            w.push(chains(Plain, AbortOffered, 7, 6000 * k));
            w.push(chains(Stamped, ValidatedEph, 4, 6000 * k));
            w.push(chains(Prod, Rename, 6, 12000 * k));
            w.push(chains(Plain, EphFail, 4, 6000 * k));
            w.push(chains(Plain, LateFail, 4, 6000 * k));
            exh(&mut w, exhaustive::Phase::Faults);
        }
        "C09" => {
            w.push(bridge(Prod, AbortOffered, 7, 600 * k, false, false));
            w.push(bridge(Stamped, LateFail, 4, 500 * k, false, false));
            w.push(chains(Plain, Random, 8, 10000 * k));
            w.push(chains(Plain, AbortOffered, 7, 10000 * k));
            w.push(chains(Stamped, AbortOffered, 7, 6000 * k));
            w.push(chains(Stamped, Random, 8, 6000 * k));
            w.push(chains(Prod, Rename, 6, 8000 * k));
            w.push(chains(Plain, FailHist, 7, 6000 * k));
            w.push(chains(Plain, LateFail, 4, 16000 * k));
            w.push(chains(Plain, EphFail, 4, 8000 * k));
            exh(&mut w, exhaustive::Phase::Faults);
        }
        "C10" => {
            w.push(bridge_injectf(Stamped, ValidatedEph, 4, 500 * k));
            w.push(bridge_injectf(Plain, ValidatedEph, 4, 300 * k));
            w.push(bridge(Prod, AbortOffered, 7, 600 * k, false, false));
            w.push(bridge(Stamped, Random, 8, 400 * k, false, false));
            // a rejected output change (EphemeralChangedOutput) followed by failures / an abort in the same evaluation
            for (conv, fam, n) in [(Plain, ValidatedEph, 4000u64), (Stamped, ValidatedEph, 2000), (Plain, EphChain, 2000)] {
                let mut c = ChainCfg::new(conv, fam, 4);
                c.inject = true;
                c.inject_with_faults = true;
                w.push(Work::Chains { cfg: c, n: n * k });
            }
            // large graphs (subprocesses): the lean driver checks progress / materialised inputs / quiescence after abort there too
            w.push(Work::Sweep { thorough: false });
            w.push(chains(Plain, AbortOffered, 7, 16000 * k));
            w.push(chains(Stamped, AbortOffered, 7, 6000 * k));
            w.push(chains(Prod, AbortOffered, 7, 6000 * k));
            w.push(chains(Plain, Random, 12, 6000 * k));
            w.push(chains(Plain, EphChain, 4, 6000 * k));
            exh(&mut w, exhaustive::Phase::Faults);
        }
        "C11" => {
            w.push(chains(Prod, KindFlip, 8, 4000 * k));
            w.push(chains(Prod, MultiPart, 4, 4000 * k));
            w.push(bridge(Prod, Random, 8, 800 * k, false, false));
            w.push(bridge(Stamped, FailHist, 7, 400 * k, false, false));
            w.push(chains(Plain, Random, 8, 12000 * k));
            w.push(chains(Stamped, Random, 8, 8000 * k));
            w.push(chains(Prod, Random, 8, 10000 * k));
            w.push(chains(Prod, Rename, 6, 6000 * k));
            w.push(chains(Plain, FailHist, 7, 6000 * k));
            w.push(chains(Stamped, ValidatedEph, 4, 6000 * k));
            exh(&mut w, exhaustive::Phase::Edits);
        }
        "C12" => {
            // large graphs (subprocesses): the 'noop' cascade is this property at scale
            w.push(Work::Sweep { thorough: false });
            w.push(bridge(Prod, Random, 8, 600 * k, false, false));
            w.push(bridge(Stamped, ValidatedEph, 4, 500 * k, false, false));
            w.push(chains(Prod, KindFlip, 8, 4000 * k));
            w.push(chains(Prod, MultiPart, 4, 4000 * k));
            w.push(chains(Plain, Random, 8, 12000 * k));
            w.push(chains(Stamped, Random, 8, 10000 * k));
            w.push(chains(Prod, Random, 8, 10000 * k));
            w.push(chains(Stamped, ValidatedEph, 4, 8000 * k));
            w.push(chains(Plain, EphChain, 4, 6000 * k));
            w.push(chains(Prod, Rename, 6, 6000 * k));
            exh(&mut w, exhaustive::Phase::Edits);
        }
        "C13" => {
            w.push(bridge(Stamped, EphFail, 4, 700 * k, false, false));
            w.push(bridge(Stamped, LateFail, 4, 500 * k, false, false));
            w.push(bridge(Stamped, EphChain, 4, 400 * k, false, false));
            w.push(bridge(Stamped, ValidatedEph, 4, 600 * k, false, false));
            w.push(bridge(Prod, Random, 8, 400 * k, false, false));
            // late failures that flip an early-skipped consumer while a cleanup offer is pending (C13-10)
            w.push(chains(Plain, LateFail, 4, 10000 * k));
            w.push(chains(Plain, EphFail, 4, 5000 * k));
            w.push(chains(Plain, Random, 8, 14000 * k));
            w.push(chains(Plain, ValidatedEph, 4, 10000 * k));
            w.push(chains(Plain, EphChain, 4, 8000 * k));
            w.push(chains(Stamped, Random, 8, 6000 * k));
            w.push(chains(Prod, Random, 8, 6000 * k));
            exh(&mut w, exhaustive::Phase::Faults);
        }
        "C14" => {
            w.push(bridge(Prod, Random, 8, 500 * k, false, false));
            w.push(bridge(Stamped, EphChain, 4, 400 * k, false, false));
            let mut c = ChainCfg::new(Plain, Random, 8);
            c.next_job_twin = true;
            w.push(Work::Chains { cfg: c, n: 10000 * k });
            let mut c = ChainCfg::new(Plain, EphChain, 4);
            c.next_job_twin = true;
            w.push(Work::Chains { cfg: c, n: 12000 * k });
            w.push(chains(Stamped, Random, 8, 6000 * k));
            w.push(chains(Prod, Random, 8, 8000 * k));
            w.push(chains(Stamped, ValidatedEph, 4, 6000 * k));
            exh(&mut w, exhaustive::Phase::Edits);
        }
        "C15" => {
            w.push(chains(Prod, MultiPart, 4, 6000 * k));
            w.push(bridge(Prod, MultiPart, 4, 800 * k, false, false));
            w.push(bridge(Stamped, Random, 8, 600 * k, false, false));
            w.push(bridge(Prod, Random, 8, 600 * k, false, false));
            w.push(bridge(Stamped, ValidatedEph, 4, 600 * k, false, false));
            w.push(bridge(Prod, Rename, 6, 600 * k, false, false));
            w.push(bridge(Stamped, EphFail, 4, 400 * k, false, false));
            // single runs under the production comparison: an up-to-date job whose records differ only textually is never executed
            w.push(chains(Prod, Rename, 6, 8000 * k));
            w.push(chains(Prod, Random, 8, 6000 * k));
            w.push(chains(Stamped, Random, 8, 4000 * k));
            w.push(chains(Prod, ValidatedEph, 4, 4000 * k));
            w.push(chains(Prod, AbortOffered, 7, 4000 * k));
            w.push(Work::Meta { family: Random, maxn: 8, n: 12000 * k });
            w.push(Work::Meta { family: ValidatedEph, maxn: 4, n: 14000 * k });
            w.push(Work::Meta { family: EphChain, maxn: 4, n: 6000 * k });
            w.push(Work::Meta { family: FailHist, maxn: 7, n: 6000 * k });
            w.push(Work::Meta { family: AbortOffered, maxn: 7, n: 4000 * k });
            w.push(Work::Meta { family: EphFail, maxn: 4, n: 8000 * k });
            w.push(Work::Meta { family: LateFail, maxn: 4, n: 4000 * k });
        }
        "C16" => {
            w.push(bridge_injectf(Stamped, ValidatedEph, 4, 500 * k));
            w.push(bridge_injectf(Plain, ValidatedEph, 4, 300 * k));
            // a rejected output change (EphemeralChangedOutput) followed by failures / an abort in the same evaluation
            for (conv, fam, n) in [(Plain, ValidatedEph, 4000u64), (Stamped, ValidatedEph, 2000), (Plain, EphChain, 2000)] {
                let mut c = ChainCfg::new(conv, fam, 4);
                c.inject = true;
                c.inject_with_faults = true;
                w.push(Work::Chains { cfg: c, n: n * k });
            }
            w.push(bridge(Stamped, ValidatedEph, 4, 800 * k, true, false));
            w.push(bridge(Plain, ValidatedEph, 4, 600 * k, true, false));
            w.push(bridge(Prod, ValidatedEph, 4, 600 * k, true, false));
            w.push(bridge(Stamped, ValidatedEph, 4, 400 * k, false, false));
            for (conv, fam, n) in [(Plain, ValidatedEph, 14000), (Stamped, ValidatedEph, 12000), (Prod, ValidatedEph, 8000), (Plain, EphChain, 8000), (Stamped, Random, 8000)] {
                let mut c = ChainCfg::new(conv, fam, if fam == Random { 8 } else { 4 });
                c.inject = true;
                w.push(Work::Chains { cfg: c, n: n * k });
            }
            // control: no injection, the error must never be raised
            w.push(chains(Stamped, ValidatedEph, 4, 8000 * k));
        }
        "C17" => {
            w.push(bridge_injectf(Stamped, ValidatedEph, 4, 500 * k));
            w.push(bridge_injectf(Plain, ValidatedEph, 4, 300 * k));
            w.push(bridge(Stamped, LateFail, 4, 500 * k, false, false));
            w.push(bridge(Prod, AbortOffered, 7, 400 * k, false, false));
            // a rejected output change (EphemeralChangedOutput) followed by failures / an abort in the same evaluation
            for (conv, fam, n) in [(Plain, ValidatedEph, 4000u64), (Stamped, ValidatedEph, 2000), (Plain, EphChain, 2000)] {
                let mut c = ChainCfg::new(conv, fam, 4);
                c.inject = true;
                c.inject_with_faults = true;
                w.push(Work::Chains { cfg: c, n: n * k });
            }
            w.push(chains(Plain, Random, 8, 12000 * k));
            w.push(chains(Plain, LateFail, 4, 20000 * k));
            w.push(chains(Plain, EphFail, 4, 6000 * k));
            w.push(chains(Plain, AbortOffered, 7, 6000 * k));
            w.push(chains(Stamped, Random, 12, 4000 * k));
            w.push(chains(Prod, Random, 8, 6000 * k));
            w.push(chains(Plain, EphChain, 4, 6000 * k));
            w.push(chains(Plain, ValidatedEph, 4, 6000 * k));
            exh(&mut w, exhaustive::Phase::Faults);
        }
        "C18" => {
            w.push(bridge(Prod, Rename, 6, 800 * k, false, false));
            w.push(bridge(Prod, Random, 8, 500 * k, false, false));
            w.push(chains(Prod, KindFlip, 8, 5000 * k));
            w.push(chains(Prod, Rename, 6, 16000 * k));
            w.push(chains(Prod, Random, 8, 12000 * k));
            w.push(chains(Plain, Random, 8, 10000 * k));
            w.push(chains(Stamped, Random, 8, 6000 * k));
            exh(&mut w, exhaustive::Phase::Edits);
        }
        "C19" => {
            w.push(Work::Sweep { thorough });
        }
        "C20" => {
            w.push(bridge(Stamped, Random, 8, 500 * k, false, true));
            w.push(bridge(Plain, Random, 8, 400 * k, false, true));
            w.push(bridge(Prod, Random, 8, 500 * k, false, true));
            w.push(bridge(Stamped, LateFail, 4, 300 * k, false, true));
            for (conv, fam, maxn, n) in [(Plain, Random, 8, 8000u64), (Stamped, Random, 8, 4000), (Prod, Random, 8, 4000), (Plain, LateFail, 4, 4000), (Plain, ValidatedEph, 4, 4000), (Plain, AbortOffered, 7, 3000)] {
                let mut c = ChainCfg::new(conv, fam, maxn);
                c.misuse = Misuse::Random(0.3);
                c.twins = false;
                w.push(Work::Chains { cfg: c, n: n * k });
            }
            exh(&mut w, exhaustive::Phase::Misuse);
        }
        _ => panic!("unknown property {}", prop),
    }
    if prop != "C19" && prop != "C15" && prop != "C16" && prop != "C20" {
        // larger projects (up to 28 jobs + motif): wide fan-in / fan-out, long dependency paths, many jobs running at once
        let conv = match prop {
            "C01" | "C04" | "C11" | "C18" => Prod,
            "C03" | "C09" | "C12" => Stamped,
            _ => Plain,
        };
        w.push(chains(conv, Random, 28, 1200 * k));
    }
    if thorough && prop != "C19" && prop != "C15" && prop != "C16" && prop != "C20" {
        // deeper scope of the thorough tier: chains of 8-20 evaluations over graphs of up to 20 (+motif) jobs
        for (conv, fam, maxn, n) in [(Plain, Random, 20, 6000u64), (Prod, Random, 16, 6000), (Stamped, Random, 12, 4000), (Prod, Rename, 8, 6000), (Prod, KindFlip, 10, 4000), (Plain, LateFail, 6, 4000), (Plain, EphChain, 6, 4000)] {
            let mut c = ChainCfg::new(conv, fam, maxn);
            c.long = true;
            w.push(Work::Chains { cfg: c, n });
        }
    }
    w
}

fn run_parallel(nthreads: usize, total: u64, deadline: Instant, timed_out: &Arc<AtomicBool>, f: impl Fn(u64, &mut Acc) + Send + Sync + 'static) -> Acc {
    let next = Arc::new(AtomicU64::new(0));
    let f = Arc::new(f);
    let result = Arc::new(Mutex::new(Acc::default()));
    let mut handles = vec![];
    for _ in 0..nthreads {
        let next = next.clone();
        let f = f.clone();
        let result = result.clone();
        let timed_out = timed_out.clone();
        handles.push(
            std::thread::Builder::new()
                .stack_size(64 << 20)
                .spawn(move || {
                    let mut acc = Acc::default();
                    loop {
                        let i = next.fetch_add(1, Ordering::Relaxed);
                        if i >= total {
                            break;
                        }
                        if Instant::now() > deadline {
                            timed_out.store(true, Ordering::Relaxed);
                            break;
                        }
                        f(i, &mut acc);
                    }
                    result.lock().unwrap().merge(acc);
                })
                .unwrap(),
        );
    }
    for h in handles {
        let _ = h.join();
    }
    let mut g = result.lock().unwrap();
    std::mem::take(&mut *g)
}

fn main() {
    if std::env::var("PPGMON_PANIC").is_err() {
        std::panic::set_hook(Box::new(|_| {}));
    }
    let args: Vec<String> = std::env::args().collect();
    let cmd = args.get(1).map(|s| s.as_str()).unwrap_or("");
    match cmd {
        "run" => {
            let prop = args[2].clone();
            let thorough = args[3] == "thorough";
            let seed: u64 = args[4].parse().unwrap();
            let out = args[5].clone();
            let nthreads: usize = std::env::var("PPGMON_THREADS").ok().and_then(|x| x.parse().ok()).unwrap_or(16);
            let t0 = Instant::now();
            let budget_s: u64 = std::env::var("PPGMON_WATCHDOG_S").ok().and_then(|x| x.parse().ok()).unwrap_or(if thorough { 5400 } else { 900 });
            let deadline = t0 + Duration::from_secs(budget_s);
            let timed_out = Arc::new(AtomicBool::new(false));
            let mut acc = Acc::default();
            let mut wl_desc = vec![];
            for (wi, w) in workloads(&prop, thorough).into_iter().enumerate() {
                let t1 = Instant::now();
                let before = acc.evaluations;
                // development aid: PPGMON_ONLY=pybridge runs only the PyO3 boundary replay workloads
                if std::env::var("PPGMON_ONLY").map(|v| v == "pybridge").unwrap_or(false) && !matches!(w, Work::PyBridge { .. }) {
                    continue;
                }
                match w.clone() {
                    Work::Chains { cfg, n } => {
                        let base = seed.wrapping_mul(1_000_003).wrapping_add(wi as u64 * 100_000_000);
                        let c2 = cfg.clone();
                        let a = run_parallel(nthreads, n, deadline, &timed_out, move |i, acc| {
                            run_chain(base + i, &c2, acc);
                        });
                        acc.merge(a);
                        wl_desc.push(format!("chains conv={} family={} maxn={} n={} flags={}", cfg.conv.name(), cfg.family.name(), cfg.maxn, n, cfg.replay_args(0).last().unwrap()));
                    }
                    Work::Meta { family, maxn, n } => {
                        let base = seed.wrapping_mul(1_000_003).wrapping_add(wi as u64 * 100_000_000);
                        let a = run_parallel(nthreads, n, deadline, &timed_out, move |i, acc| {
                            run_metamorphic(base + i, family, maxn, acc, false);
                        });
                        acc.merge(a);
                        wl_desc.push(format!("plain-vs-stamped chain pairs family={} maxn={} n={}", family.name(), maxn, n));
                    }
                    Work::Exhaustive { n, phase, stride } => {
                        let total = exhaustive::graph_count(n);
                        let offset = seed % stride;
                        let count = (total + stride - 1 - offset) / stride;
                        let a = run_parallel(nthreads, count, deadline, &timed_out, move |i, acc| {
                            exhaustive::run_graph(n, offset + i * stride, phase, acc, false);
                        });
                        acc.merge(a);
                        wl_desc.push(format!("small-scope exhaustive n={} phase={:?} graphs={} of {} (stride {}, offset {})", n, phase, count, total, stride, offset));
                    }
                    Work::Scenarios => {
                        scenarios::run_all(&mut acc, false);
                        wl_desc.push("regression scenarios (canonical witnesses of fixed findings)".to_string());
                    }
                    Work::PyBridge { cfg, n } => {
                        let base = seed.wrapping_mul(1_000_003).wrapping_add(wi as u64 * 100_000_000);
                        let c2 = cfg.clone();
                        let mut a = run_parallel(nthreads, n, deadline, &timed_out, move |i, acc| {
                            let o = run_chain(base + i, &c2, acc);
                            acc.export_lines.push(pybridge::chain_line(base + i, &c2, &o));
                        });
                        let lines = std::mem::take(&mut a.export_lines);
                        acc.merge(a);
                        let workdir = std::path::Path::new(&out).with_extension(format!("pybridge{}", wi));
                        pybridge::replay_lines(lines, &cfg, &workdir, nthreads, deadline, &mut acc, false);
                        let _ = std::fs::remove_dir_all(&workdir);
                        wl_desc.push(format!("PyO3 boundary replay (extension module + history_comparisons.py) of chains conv={} family={} maxn={} n={} flags={}", cfg.conv.name(), cfg.family.name(), cfg.maxn, n, cfg.replay_args(0).last().unwrap()));
                    }
                    Work::Sweep { thorough } => {
                        sweep::run_sweep(thorough, seed, nthreads, deadline, &timed_out, &mut acc);
                        wl_desc.push(format!("size sweep in subprocesses thorough={}", thorough));
                    }
                }
                eprintln!("  [{}] workload {} done: +{} evaluations in {:.1}s", prop, wl_desc.last().unwrap(), acc.evaluations - before, t1.elapsed().as_secs_f64());
            }
            if timed_out.load(Ordering::Relaxed) {
                acc.inconclusive.push(format!("watchdog: wall-clock budget of {}s exhausted before the workloads finished", budget_s));
            }
            let json = format!(
                "{{\"property\":{},\"tier\":{},\"seed\":{},\"wall_s\":{:.2},\"workloads\":{},\"acc\":{}}}",
                jstr(&prop),
                jstr(if thorough { "thorough" } else { "quick" }),
                seed,
                t0.elapsed().as_secs_f64(),
                jarr(&wl_desc.iter().map(|x| jstr(x)).collect::<Vec<_>>()),
                acc.to_json()
            );
            std::fs::write(&out, json).unwrap();
        }
        "one" => {
            let mut acc = Acc::default();
            match args[2].as_str() {
                "chain" => {
                    let mut cfg = ChainCfg::new(Conv::parse(&args[3]), Family::parse(&args[4]), args[5].parse().unwrap());
                    let seed: u64 = args[6].parse().unwrap();
                    cfg.apply_flags(args.get(7).map(|s| s.as_str()).unwrap_or("-"));
                    cfg.verbose = true;
                    run_chain(seed, &cfg, &mut acc);
                }
                "pybridge" => {
                    let mut cfg = ChainCfg::new(Conv::parse(&args[3]), Family::parse(&args[4]), args[5].parse().unwrap());
                    let seed: u64 = args[6].parse().unwrap();
                    cfg.apply_flags(args.get(7).map(|s| s.as_str()).unwrap_or("-"));
                    cfg.export = true;
                    cfg.verbose = true;
                    let o = run_chain(seed, &cfg, &mut acc);
                    let dir = std::env::temp_dir().join(format!("ppgmon-pybridge-{}", std::process::id()));
                    pybridge::replay_lines(vec![pybridge::chain_line(seed, &cfg, &o)], &cfg, &dir, 1, Instant::now() + Duration::from_secs(300), &mut acc, true);
                    let _ = std::fs::remove_dir_all(&dir);
                    for r in &acc.inconclusive {
                        println!("INCONCLUSIVE {}", r);
                    }
                }
                "meta" => {
                    run_metamorphic(args[5].parse().unwrap(), Family::parse(&args[3]), args[4].parse().unwrap(), &mut acc, true);
                }
                "exh" => {
                    exhaustive::run_graph(args[3].parse().unwrap(), args[4].parse().unwrap(), exhaustive::Phase::parse(&args[5]), &mut acc, true);
                }
                "scenario" => {
                    scenarios::run_one(&args[3], &mut acc, true);
                }
                "sweep" => {
                    let r = sweep::run_case(&args[3], args[4].parse().unwrap(), &args[5]);
                    println!("{:?}", r);
                    return;
                }
                x => panic!("unknown replay kind {}", x),
            }
            println!("evaluations {}", acc.evaluations);
            for ((p, sig), e) in &acc.viols {
                println!("VIOLATED {} x{} sig={} :: {}", p, e.count, sig, e.first.detail);
            }
            if acc.viols.is_empty() {
                println!("no monitor fired");
            }
        }
        "exh-bulk" => {
            // development aid: ppgmon exh-bulk <n> <phase> <stride> <offset>
            let n: usize = args[2].parse().unwrap();
            let phase = exhaustive::Phase::parse(&args[3]);
            let stride: u64 = args[4].parse().unwrap();
            let offset: u64 = args[5].parse().unwrap();
            let total = exhaustive::graph_count(n);
            let count = (total + stride - 1 - offset) / stride;
            let timed_out = Arc::new(AtomicBool::new(false));
            let acc = run_parallel(16, count, Instant::now() + Duration::from_secs(7200), &timed_out, move |i, acc| {
                exhaustive::run_graph(n, offset + i * stride, phase, acc, false);
            });
            println!("graphs {} evaluations {} maxima {:?}", count, acc.evaluations, acc.maxima);
            for ((p, sig), e) in &acc.viols {
                println!("VIOLATED {} x{} sig={} :: {} :: {:?}", p, e.count, sig, e.first.detail.chars().take(300).collect::<String>(), e.first.replay_args);
            }
        }
        "bulk" => {
            // development aid: ppgmon bulk <conv> <family> <maxn> <seed0> <n> [flags]
            let mut cfg = ChainCfg::new(Conv::parse(&args[2]), Family::parse(&args[3]), args[4].parse().unwrap());
            let seed0: u64 = args[5].parse().unwrap();
            let n: u64 = args[6].parse().unwrap();
            cfg.apply_flags(args.get(7).map(|s| s.as_str()).unwrap_or("-"));
            let timed_out = Arc::new(AtomicBool::new(false));
            let c2 = cfg.clone();
            let acc = run_parallel(16, n, Instant::now() + Duration::from_secs(3600), &timed_out, move |i, acc| {
                run_chain(seed0 + i, &c2, acc);
            });
            println!("counters {:?}", acc.counters.iter().filter(|(k, _)| k.starts_with("evals_with")).collect::<Vec<_>>());
            println!("evaluations {} nontrivial {:?}", acc.evaluations, acc.nontrivial.iter().map(|(k, v)| (k.clone(), v.len())).collect::<Vec<_>>());
            for ((p, sig), e) in &acc.viols {
                println!("VIOLATED {} x{} sig={} :: {} :: {:?}", p, e.count, sig, e.first.detail.chars().take(300).collect::<String>(), e.first.replay_args);
            }
        }
        "sweep-case" => {
            let r = sweep::run_case(&args[2], args[3].parse().unwrap(), &args[4]);
            println!("{}", sweep::case_json(&r));
        }
        _ => {
            eprintln!("usage: ppgmon run <PROP> <quick|thorough> <seed> <out.json> | one ... | sweep-case ...");
            std::process::exit(3);
        }
    }
}
