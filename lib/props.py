"""Per-property metadata of the check script: claimed level, the rule that makes a
case non-trivial (DESIGN.md section 5, 'N'), and what a run must have observed for its
verdict to be 'held' rather than 'inconclusive'."""

ASSUMPTIONS = [
    "job behaviour is a deterministic function of the job's version and of the inputs it actually uses",
    "only Always jobs change behaviour between evaluations (as FunctionInvariant/FileInvariant do in production)",
    "output names never move from one logical job to another; kind changes happen only via remove + add",
    "the python runner is represented by its call protocol as read from runner.py (late cleanup acks, several running jobs, abort with or without first failing the running jobs)",
    "histories are reachable ones: every history handed to the engine was returned by the engine",
    "trusted base: the ~100-line reference oracles (clean build, up-to-date predicate, expected executed set) and the read-only hook accessors",
    "held = no monitor fired on the executions explored; it says nothing about graphs/histories/schedules that were not generated",
]

GEN = ("cases: seeded random chains of 2-7 evaluations over edited projects (<=12 jobs; edits, failures, aborts, wipes) in the "
       "plain/stamped/production-name conventions + directed graph families + regression scenarios + small-scope exhaustive "
       "enumeration (all DAGs over n<=3, sampled/all over n=4, all schedules by DFS); a case = (graph, input history, present "
       "outputs, plan, schedule), distinct by hash. ")

PROPS = {
    "C01": dict(level="exploration", min_nontrivial=dict(quick=200, thorough=2000),
                rule=GEN + "non-trivial: failure-free evaluation with non-empty input history, >=1 skipped Output and >=1 executed job (pure first builds and pure no-ops are trivial)"),
    "C02": dict(level="exploration", min_nontrivial=dict(quick=200, thorough=2000),
                required_counters={"c02_chains_of_validated_ephemerals": 20},
                rule=GEN + "non-trivial: a job with >=1 validated, on-demand Ephemeral upstream was started (counted separately: chains of >=2 such Ephemerals)"),
    "C03": dict(level="exploration", min_nontrivial=dict(quick=200, thorough=2000),
                rule=GEN + "non-trivial: >=1 skipped non-exempt job while the input history came from an interrupted or edited predecessor"),
    "C04": dict(level="exploration", min_nontrivial=dict(quick=200, thorough=2000),
                required_counters={"c04_rename_then_skipped_consumer": 5},
                rule=GEN + "non-trivial: >=1 job executed while >=1 of its direct consumers was skipped (shielding observed); counted separately: renamed multi-output upstream followed by a skipped consumer"),
    "C05": dict(level="exploration", min_nontrivial=dict(quick=500, thorough=5000),
                rule=GEN + "non-trivial: distinct (case, schedule) with >=2 jobs running at once or an out-of-order completion"),
    "C06": dict(level="fault_enumeration", min_nontrivial=dict(quick=500, thorough=5000),
                required_counters={"c06_failure_of_job_with_history": 100, "c06_evaluation_after_failure_of_job_with_history": 100,
                                   "c06_failure_with_parallel_jobs": 100, "c06_abort_with_running_jobs": 100},
                rule=GEN + "non-trivial: distinct error-free call sequences containing a failure of a job with history, an evaluation after such a failure, a failure while siblings run, or an abort with running jobs; small scope: every failure subset x every schedule, every abort point x both abort styles"),
    "C07": dict(level="fault_enumeration", min_nontrivial=dict(quick=200, thorough=2000),
                rule=GEN + "non-trivial: (case, failure subset) with >=1 job below a failed job and >=1 Always/Output job with no failed ancestor (compared with the failure-free twin)"),
    "C08": dict(level="fault_enumeration", min_nontrivial=dict(quick=200, thorough=2000),
                rule=GEN + "non-trivial: a failed / aborted-while-running job that had an output record, an input-list record and >=1 per-dependency record before"),
    "C09": dict(level="fault_enumeration", min_nontrivial=dict(quick=200, thorough=2000),
                required_counters={"c09_valid_job_never_reached": 50},
                rule=GEN + "non-trivial: interrupted evaluation in which >=1 job succeeded before the interruption and >=1 job was never reached; each followed by a failure-free resume and compared with the uninterrupted twin"),
    "C10": dict(level="fault_enumeration", min_nontrivial=dict(quick=500, thorough=5000),
                required_counters={"c10_aborts_with_offered_unstarted": 100, "c10_aborts_with_running": 100},
                rule=GEN + "non-trivial: distinct (case, schedule prefix) aborted with >=1 job offered but unstarted or >=1 job running"),
    "C11": dict(level="exploration", min_nontrivial=dict(quick=500, thorough=5000),
                report_sets=["c11_combos"],
                required_items={"c11_combos": ["exec<-exec", "exec<-skip", "exec<-exec(no-record-before)", "skip<-exec", "skip<-skip"]},
                rule=GEN + "non-trivial: evaluation with >=1 successfully executed job; all combinations {executed, skipped} consumer x {executed, skipped, no-record-before} upstream must be seen"),
    "C12": dict(level="exploration", min_nontrivial=dict(quick=200, thorough=2000),
                rule=GEN + "non-trivial: re-evaluation (other declaration order and schedule) of a project with >=1 Always job feeding an Ephemeral and >=1 Output"),
    "C13": dict(level="exploration", min_nontrivial=dict(quick=200, thorough=2000),
                rule=GEN + "non-trivial: an Ephemeral with >=2 direct downstreams finishing at different steps was offered for cleanup (acks delayed 0/0.5/0.9/at-end)"),
    "C14": dict(level="exploration", min_nontrivial=dict(quick=200, thorough=2000),
                required_counters={"c14_nextjob_twins": 100},
                rule=GEN + "non-trivial: twin pair (other declaration order, schedule, parallelism, ack timing) whose start orders actually differ and that contains >=1 up-to-date on-demand Ephemeral"),
    "C15": dict(level="exploration", min_nontrivial=dict(quick=100, thorough=1000),
                rule="cases: the same seeded chain run once with plain records/string comparison and once with stamped records/production comparison (every re-produced record is textually new, judged unaltered); non-trivial: chain position where a validated Ephemeral was re-executed while >=1 of its consumers did not record (failed, upstream-failed, aborted or absent)"),
    "C16": dict(level="exploration", min_nontrivial=dict(quick=200, thorough=2000),
                required_counters={"c16_injections_detected": 100, "c16_control_reexecutions_without_change": 100},
                rule=GEN + "non-trivial: payload change injected into the re-execution of an Ephemeral the reference calls up to date, with >=1 not-yet-started dependant; control group: re-executions without payload change (stamp-only change in stamped mode)"),
    "C17": dict(level="exploration", min_nontrivial=dict(quick=60, thorough=80),
                report_sets=["c17_transition_pairs", "c17_observation_vectors"],
                rule=GEN + "distinct_nontrivial/states: distinct observation vectors (sizes of ready/running/cleanup/failed/upstream-failed per job kind + finished flag) checked after every call; transitions: distinct (from,to) state assignments seen in the transition log (intermediate states inside one call)"),
    "C18": dict(level="exploration", min_nontrivial=dict(quick=200, thorough=2000),
                required_counters={"c18_evals_with_absent_job_records": 50, "c18_evals_with_removed_dependency_records": 50, "c18_evals_with_superseded_records": 50},
                rule=GEN + "non-trivial: input history holds records of an absent job, of a dropped dependency between present jobs, or of a superseded multi-output id (all three classes required)"),
    "C19": dict(level="exploration", min_nontrivial=dict(quick=200, thorough=300),
                report_sets=["c19_max_signal_depth_by_size", "c19_completed_at_1000_plus"],
                rule="cases: (shape, size, cascade) triples, one subprocess each: 9 shapes (output chains, ephemeral-heavy/alternating/all-ephemeral chains, layered with fan-in 3, layered with ephemeral layers, fan-in star, fan-out star, diamonds) x sizes 100..3000 (quick) / ..30000 (thorough) x 7 cascades (first build, up-to-date re-evaluation, invalidation at the root with distinct / colliding outputs, invalidation at the leaf, failure at the root, abort mid-way + resume); non-trivial = completed with the analytic expectation met; all shapes x cascades must complete at >=1000 jobs"),
    "C20": dict(level="fault_enumeration", min_nontrivial=dict(quick=500, thorough=5000),
                report_sets=["c20_state_call_pairs"],
                required_items={"c20_state_call_pairs": ["start:", "success:", "failure:", "cleanup:", "startup:"]},
                rule=GEN + "at injection points every illegal call on every known job is issued and must return APIError with an identical full snapshot before/after; non-trivial: distinct (case, schedule) with injections; coverage: distinct (engine state, call kind) pairs rejected"),
}


# ---- PyO3 boundary replay (DESIGN.md section 3.11): a check that includes the workload must have observed it
BRIDGE_NOTE = (" + PyO3 boundary replay: chains replayed call by call through the real extension module (lib.rs: PPG2Evaluator, "
               "StrategyForPython with real files) and the real history_comparisons.py, every call result / query result / returned "
               "history compared with the Rust binding's")
_BRIDGE = {
    "C02": {"pybridge_evaluations": 1000},
    "C05": {"pybridge_evaluations": 1000},
    "C07": {"pybridge_evaluations": 1000, "pybridge_faulty_evaluations": 300},
    "C10": {"pybridge_evaluations": 1000, "pybridge_faulty_evaluations": 300},
    "C13": {"pybridge_evaluations": 1000},
    "C14": {"pybridge_evaluations": 1000},
    "C17": {"pybridge_evaluations": 1000},
    "C01": {"pybridge_evaluations": 1000},
    "C08": {"pybridge_evaluations": 1000, "pybridge_faulty_evaluations": 300},
    "C09": {"pybridge_evaluations": 1000, "pybridge_faulty_evaluations": 300},
    "C12": {"pybridge_evaluations": 1000},
    "C18": {"pybridge_evaluations": 1000, "pybridge_histories_equal": 1000},
    "C03": {"pybridge_evaluations": 1000},
    "C04": {"pybridge_evaluations": 1000},
    "C06": {"pybridge_evaluations": 1000, "pybridge_faulty_evaluations": 300},
    "C11": {"pybridge_evaluations": 1000, "pybridge_histories_equal": 1000},
    "C15": {"pybridge_evaluations": 1000, "pybridge_comparison_judged_unaltered_although_textually_different": 1000},
    "C16": {"pybridge_evaluations": 1000, "pybridge_ephemeral_changed_output_reported": 100},
    "C20": {"pybridge_evaluations": 1000, "pybridge_misuse_calls": 10000},
}
for _p, _req in _BRIDGE.items():
    PROPS[_p].setdefault("required_counters", {}).update(_req)
    PROPS[_p]["rule"] += BRIDGE_NOTE
    PROPS[_p].setdefault("assumptions", []).append(
        "PyO3 replay: the job classes' compare_hashes is transcribed (new['hash'] == old.get('hash', '')); logging and traceback "
        "helpers of history_comparisons.py are stubbed; the python runner itself is not executed")

PROPS["C05"]["rule"] += (" + logical step bound: the signals the engine handles inside one call (hook counter) must stay below "
                         "2000 + 400 x (jobs + dependencies); measured maximum on the unchanged tree: 3.4 x (jobs + dependencies)")
PROPS["C19"]["rule"] += ("; each call is also held to the logical step bound 2000 + 400 x (jobs + dependencies) signals, so a super-linear "
                         "blow-up is a verdict, not a watchdog timeout")
