#!/usr/bin/env python3
"""PyO3 boundary replay (runtime monitor over the real extension module).

usage: replay.py <dir with pypipegraph2.abi3.so> <repo> <chains.jsonl> <result.tsv> [-v]

Every line of <chains.jsonl> is one chain that the monitored Rust driver (ppgmon) has just run against the
engine through its Rust API, with a structured trace of every call, its result class and the query results
after it.  This program replays each primary evaluation *call by call* against

  * the real extension module built from the repository's working tree (class PPG2Evaluator of src/lib.rs,
    i.e. StrategyForPython: files on disk for output_already_present, the textual short-cut and the python
    callback for is_history_altered, the python callback for the input-name list, the error mapping to
    python exceptions, the HashMap/Vec conversions of the queries), and
  * the real python/pypipegraph2/history_comparisons.py as the comparison callback (loaded from the
    repository with its two package-internal imports, logging and traceback formatting, stubbed out), with
    jobs whose compare_hashes is the one of the file generating jobs: new["hash"] == old.get("hash", "").

and compares every call result and every query result with what the Rust binding showed.  The engine is the
same code in both bindings and the comparison semantics are the same (the harness' production comparison is
a transcription of history_comparisons.py), so any difference is a defect of the binding or of the python
comparison - or shows that the transcription the other monitors rely on is wrong.

Records: the harness' record "n1=v1;n2=v2|stamp" is handed to the extension as the JSON text
{"n1": {"hash": "v1", "mtime": stamp, "size": ..}, ...} (injective; production records have this shape).

Result file (tab separated):  V prop rule sig seed step detail | C counter n | S set item | N prop hash |
E evaluations | I inconclusive-reason | W seed step (progress marker: what was being replayed)
"""
import importlib.util
import json
import os
import shutil
import sys
import tempfile
import types


def load_modules(ext_dir, repo):
    sys.path.insert(0, ext_dir)
    import pypipegraph2 as ext  # the bare extension module

    pkg = types.ModuleType("ppg2real")
    pkg.__path__ = []
    sys.modules["ppg2real"] = pkg
    util = types.ModuleType("ppg2real.util")
    for n in ("log_info", "log_error", "log_debug", "log_warning", "log_trace", "log_job_trace"):
        setattr(util, n, lambda *a, **k: None)
    sys.modules["ppg2real.util"] = util
    pkg.util = util
    tb = types.ModuleType("ppg2real.ppg_traceback")

    class Trace:
        def __init__(self, *a):
            self.a = a

        def __str__(self):
            return "Trace%r" % (self.a[:2],)

    tb.Trace = Trace
    sys.modules["ppg2real.ppg_traceback"] = tb
    pkg.ppg_traceback = tb
    path = os.path.join(repo, "python", "pypipegraph2", "history_comparisons.py")
    spec = importlib.util.spec_from_file_location("ppg2real.history_comparisons", path)
    mod = importlib.util.module_from_spec(spec)
    sys.modules["ppg2real.history_comparisons"] = mod
    spec.loader.exec_module(mod)
    return ext, mod


class FakeJob:
    def __init__(self, node):
        self.job_id = node["id"]
        self.outputs = list(node["outs"])
        self.kind = node["kind"]

    def compare_hashes(self, old_hash, new_hash):
        if self.kind == "Always":
            # python/pypipegraph2/jobs.py, Job.compare_hashes (ParameterInvariant: the record of an output is a plain string)
            return old_hash == new_hash
        # MultiFileGeneratingJob.compare_hashes / FileInvariant.compare_hashes (record of an output: hash, mtime, size)
        return new_hash["hash"] == old_hash.get("hash", "")


class FakeRunner:
    def __init__(self, nodes):
        self.jobs = {n["id"]: FakeJob(n) for n in nodes}
        self.job_inputs = {n["id"]: set(n["inputs"]) for n in nodes}


KINDS = {}  # job id -> kind, remembered across the evaluations of a chain (records of absent jobs stay translatable)


def t_rec(r, producer=None):
    """harness record -> production-shaped JSON record. Output / Ephemeral jobs: per output {"hash", "mtime", "size"}
    (file generating jobs); Always jobs: per output a plain string as ParameterInvariant writes it - "" for the
    harness value "0", so that falsy-but-legal records occur. The stamp of an Always job's record goes into an extra
    key that no consumer reads."""
    payload, _, stamp = r.partition("|")
    always = KINDS.get(producer) == "Always"
    d = {}
    for kv in payload.split(";"):
        if not kv:
            continue
        k, _, v = kv.partition("=")
        if always:
            d[k] = "" if v == "0" else v
        else:
            d[k] = {"hash": v, "mtime": int(stamp) if stamp.isdigit() else 0, "size": len(v)}
    if always and stamp:
        d["//stamp"] = stamp
    return json.dumps(d, sort_keys=True)


def t_hist(h):
    out = {}
    for k, v in h.items():
        if k.endswith("!!!"):
            out[k] = v
        else:
            out[k] = t_rec(v, k.split("!!!")[0])
    return out


class Out:
    def __init__(self, path):
        self.f = open(path, "w")
        self.counters = {}
        self.sets = {}

    def line(self, *fields):
        self.f.write("\t".join(str(x).replace("\n", "\\n").replace("\t", "\\t") for x in fields) + "\n")

    def count(self, k, n=1):
        self.counters[k] = self.counters.get(k, 0) + n

    def set(self, k, v):
        s = self.sets.setdefault(k, set())
        if len(s) < 300:
            s.add(v)

    def close(self):
        for k, v in sorted(self.counters.items()):
            self.line("C", k, v)
        for k, s in sorted(self.sets.items()):
            for v in sorted(s):
                self.line("S", k, v)
        self.f.close()


def classify(exc):
    """result class of a call through the extension, in the vocabulary of the Rust trace"""
    if exc is None:
        return "ok", ""
    name = type(exc).__name__
    msg = str(exc)
    if name == "PanicException":
        return "panic", msg
    if isinstance(exc, ValueError):
        if msg.startswith("API error"):
            return "api", msg
        if msg.startswith("Internal error"):
            return "internal", msg
        if msg.startswith("Ephemeral ") and "changed output" in msg:
            return "ephchanged", msg
    return "other:" + name, msg


def sync_disk(names, present):
    names = set(names)
    for n in present - names:
        try:
            os.remove(n)
        except FileNotFoundError:
            pass
    for n in names - present:
        with open(n, "w") as f:
            f.write("x")
    return names


def observe(e):
    return {
        "ready": sorted(e.jobs_ready_to_run()),
        "running": sorted(e.jobs_running()),
        "cleanup": sorted(e.jobs_ready_for_cleanup()),
        "upf": sorted(e.list_upstream_failed_jobs()),
        "finished": bool(e.is_finished()),
    }


DIVERGENCE_PROPS = {
    # which properties a difference in one observable speaks about (the Rust-bound run of the very same call
    # sequence satisfied the reference oracles; the extension-bound run decided differently)
    "ready-extra": ["C04", "C15"],      # + C12 when the evaluation re-evaluates an unchanged project and the job is an Output
    "ready-missing": ["C03", "C15"],    # + C01 when the evaluation has no failure / abort
    "running": ["C17"],
    "cleanup": ["C13", "C17"],
    "upf": ["C07"],
    "finished": ["C05"],
}


def ident(x, *_a):
    return x


def replay_eval(ext, hc, chain, ev, out, verbose, stats):
    # plain convention: records are handed over verbatim and the comparison is python string inequality (the
    # textual short-cut of StrategyForPython plus a trivial callback); stamped / production conventions: records in
    # production shape and the real history_comparisons.py
    raw = chain.get("conv") == "plain"
    t_rec_, t_hist_ = (ident, ident) if raw else (t_rec, t_hist)
    return replay_eval_(ext, hc, chain, ev, out, verbose, stats, raw, t_rec_, t_hist_)


def replay_eval_(ext, hc, chain, ev, out, verbose, stats, raw, t_rec, t_hist):
    seed = chain["seed"]
    step = ev["step"]
    out.line("W", seed, step)
    out.f.flush()
    runner = FakeRunner(ev["nodes"])
    kinds = {n["id"]: n["kind"] for n in ev["nodes"]}
    KINDS.update(kinds)
    cb = {"n": 0, "true": 0, "false": 0}

    def compare(up, down, last, now):
        cb["n"] += 1
        if raw:
            r = last != now
        else:
            r = hc.history_is_different(runner, up, down, last, now)
        cb["true" if r else "false"] += 1
        return r

    def inputs_str(job_id):
        # python/pypipegraph2/runner.py, Runner.get_job_inputs_str
        return "\n".join(sorted(runner.job_inputs[job_id]))

    viol = []

    def v(props, rule, sig, detail):
        for p in props:
            viol.append((p, rule, sig, detail))

    present = sync_disk(ev["disk_before"], stats["present"])
    stats["present"] = present
    faulty = ev["faulty"]
    try:
        e = ext.PPG2Evaluator(t_hist(ev["h_in"]), compare, inputs_str)
        for n in ev["nodes"]:
            e.add_node(n["id"], n["kind"])
        for d, u in ev["edges"]:
            e.add_edge(d, u)
    except BaseException as ex:  # noqa: B902 - PanicException derives from BaseException
        v(["C06"], "pybridge-construction-failed", type(ex).__name__, "building the evaluator through the extension failed: %r" % (ex,))
        return viol, "stop"
    ncalls = 0
    started_jobs, failed_jobs, aborted_flag = set(), set(), []
    succeeded_jobs, offered_cleanup = set(), set()
    for t in ev["trace"]:
        op = t["op"]
        if op == "peek":
            for up, rec in t["seen"].items():
                try:
                    got = e.get_job_output(up)
                except BaseException as ex:  # noqa: B902
                    got = None
                    if rec is not None:
                        v(["C02"], "pybridge-upstream-output-not-reportable", kinds.get(up, "?"), "before starting %s: get_job_output(%s) raised %r through the extension, the Rust binding reported %r" % (t["job"], up, ex, rec))
                        continue
                if rec is not None and got != t_rec(rec, up):
                    v(["C02", "C11"], "pybridge-upstream-output-differs", kinds.get(up, "?"), "before starting %s: get_job_output(%s) = %r through the extension, %r expected" % (t["job"], up, got, t_rec(rec, up)))
            continue
        stats["present"] = sync_disk(t["disk"], stats["present"])
        if op == "misuse":
            before = observe(e)
            for what, job, payload in t["tries"]:
                exc = None
                try:
                    if what == "start":
                        e.event_now_running(job)
                    elif what in ("success", "success-same"):
                        e.event_job_success(job, t_rec(payload, job))
                    elif what == "failure":
                        e.event_job_failure(job)
                    elif what == "cleanup":
                        e.event_job_cleanup_done(job)
                    elif what == "startup":
                        e.event_startup()
                except BaseException as ex:  # noqa: B902
                    exc = ex
                cls, msg = classify(exc)
                out.count("pybridge_misuse_calls")
                out.set("pybridge_misuse_kinds", what)
                if cls != "api":
                    v(["C20"], "pybridge-misuse-not-rejected-as-api-error", "%s:%s" % (what, cls), "illegal %s(%s) through the extension -> %s %s (expected ValueError 'API error...')" % (what, job, cls, msg[:200]))
            after = observe(e)
            if before != after:
                v(["C20"], "pybridge-misuse-changed-state", "", "illegal calls through the extension changed the query results: %r -> %r" % (before, after))
            if after != {k: t[k] for k in after} and not faulty:
                v(["C20"], "pybridge-misuse-state-differs", "", "after the illegal calls the extension reports %r, the Rust binding %r" % (after, {k: t[k] for k in after}))
            continue
        exc = None
        job = t["job"]
        try:
            if op == "startup":
                e.event_startup()
            elif op == "start":
                e.event_now_running(job)
            elif op == "ok":
                e.event_job_success(job, t_rec(t["rec"], job))
            elif op == "fail":
                e.event_job_failure(job)
            elif op == "cleanup":
                e.event_job_cleanup_done(job)
            elif op == "abort":
                e.event_abort()
            else:
                raise RuntimeError("unknown op %s" % op)
        except BaseException as ex:  # noqa: B902
            exc = ex
        ncalls += 1
        cls, msg = classify(exc)
        if op == "start" and cls == "ok":
            started_jobs.add(job)
        if op == "ok" and cls == "ok":
            succeeded_jobs.add(job)
        if (op == "fail" and cls == "ok") or cls == "ephchanged":
            failed_jobs.add(job)
        if op == "abort":
            aborted_flag.append(True)
        out.set("pybridge_call_results", "%s:%s" % (op, cls))
        if cls != t["res"] and op == "abort":
            v(["C10"], "pybridge-abort-failed", cls, "event_abort() through the extension -> %s %s; through the Rust binding abort_remaining() returned %s" % (cls, msg[:300], t["res"]))
            return viol, "stop"
        if cls != t["res"]:
            if faulty and t["res"] == "ok" and cls == "api":
                # the two processes may legitimately have offered different jobs when the fault arrived (hash order)
                out.count("pybridge_diverged_under_fault")
                return viol, "diverged"
            if cls in ("panic", "internal", "api") or cls.startswith("other:"):
                v(["C06"], "pybridge-call-error", "%s:%s:%s" % (op, cls, msg[:60]), "%s(%s) through the extension -> %s %s; the Rust binding returned %s" % (op, job, cls, msg[:300], t["res"]))
            elif cls == "ephchanged":
                v(["C16", "C15"], "pybridge-spurious-ephemeral-changed-output", kinds.get(job, "?"), "%s(%s) through the extension -> %s; the Rust binding accepted the record" % (op, job, msg[:300]))
            elif cls == "ok" and t["res"] == "ephchanged":
                v(["C16"], "pybridge-changed-output-accepted", kinds.get(job, "?"), "%s(%s): the extension accepted a changed output of a validated Ephemeral which the Rust binding rejected" % (op, job))
            else:
                v(["C06"], "pybridge-call-result-differs", "%s:%s/%s" % (op, cls, t["res"]), "%s(%s) through the extension -> %s %s; the Rust binding: %s" % (op, job, cls, msg[:200], t["res"]))
            return viol, "stop"
        if cls == "ephchanged":
            out.count("pybridge_ephemeral_changed_output_reported")
        if t.get("ready") is None:
            continue
        obs = observe(e)
        # the python runner polls next_job_ready_to_run(): it has to name an offered job, and None only if none is offered
        try:
            nxt = e.next_job_ready_to_run()
        except BaseException as ex:  # noqa: B902
            nxt = "<raised %r>" % (ex,)
        if (nxt is None and obs["ready"]) or (nxt is not None and nxt not in obs["ready"]):
            v(["C17", "C05"] if nxt is None else ["C17"], "pybridge-next-job-disagrees-with-ready-set", "none" if nxt is None else "not-offered", "after %s(%s) next_job_ready_to_run() = %r through the extension although jobs_ready_to_run() = %r" % (op, job, nxt, obs["ready"]))
            return viol, "stop"
        if op == "abort" and (obs["ready"] or obs["running"] or not obs["finished"]):
            v(["C10"], "pybridge-not-quiescent-after-abort", "", "after event_abort() through the extension: %r" % (obs,))
        diffs = [k for k in obs if obs[k] != t[k]]
        offered_cleanup.update(obs["cleanup"])
        if faulty and diffs and set(diffs) <= {"upf", "cleanup"}:
            # only the upstream-failed report differs: the calls that follow are still the legal ones, keep replaying - the
            # report is judged by itself when the evaluation has ended (C07 rule below), not against the other process
            out.count("pybridge_report_differs_under_fault_judged_by_itself")
            diffs = []
        if diffs:
            if faulty:
                out.count("pybridge_diverged_under_fault")
                return viol, "diverged"
            for k in diffs:
                if k == "ready":
                    extra = sorted(set(obs[k]) - set(t[k]))
                    missing = sorted(set(t[k]) - set(obs[k]))
                    if extra:
                        props = list(DIVERGENCE_PROPS["ready-extra"])
                        if ev.get("noop") and any(kinds.get(j) == "Output" for j in extra):
                            props.append("C12")
                        v(props, "pybridge-offers-extra-job", "/".join(sorted({kinds.get(j, "?") for j in extra})), "after %s(%s) the extension offers %r which the Rust binding (same calls, same history, same outputs present) does not" % (op, job, extra))
                    if missing:
                        v(DIVERGENCE_PROPS["ready-missing"] + ["C01"], "pybridge-does-not-offer-job", "/".join(sorted({kinds.get(j, "?") for j in missing})), "after %s(%s) the extension does not offer %r which the Rust binding offers" % (op, job, missing))
                else:
                    v(DIVERGENCE_PROPS[k], "pybridge-query-differs", k, "after %s(%s) %s is %r through the extension, %r through the Rust binding" % (op, job, k, obs[k], t[k]))
            return viol, "stop"
    out.count("pybridge_calls", ncalls)
    out.count("pybridge_comparison_callbacks", cb["n"])
    out.count("pybridge_comparison_judged_altered", cb["true"])
    out.count("pybridge_comparison_judged_unaltered_although_textually_different", cb["false"])
    if failed_jobs and not aborted_flag:
        # C07 on the report the python runner reads (no comparison across processes involved): a never-started job
        # directly below a failed / upstream-failed job is in list_upstream_failed_jobs() when the evaluation ends
        # (exempt: Ephemerals on which only Ephemerals depend)
        try:
            upf = set(e.list_upstream_failed_jobs())
            ups = {}
            downs = {}
            for d, u in ev["edges"]:
                ups.setdefault(d, set()).add(u)
                downs.setdefault(u, set()).add(d)

            def useless(j, seen=()):
                return kinds.get(j) == "Ephemeral" and all(useless(x) for x in downs.get(j, ()))

            bad = failed_jobs | upf
            for n in ev["nodes"]:
                j = n["id"]
                if j in started_jobs or j in bad or useless(j):
                    continue
                if ups.get(j, set()) & bad:
                    v(["C07"], "pybridge-blocked-job-not-reported-upstream-failed", kinds.get(j, "?"), "%s was never started and its direct upstream %r failed / is upstream-failed, but list_upstream_failed_jobs() through the extension does not report it (reported: %r)" % (j, sorted(ups[j] & bad), sorted(upf)))
                    break
        except BaseException as ex:  # noqa: B902
            v(["C06"], "pybridge-call-error", "list_upstream_failed_jobs:%s" % type(ex).__name__, "list_upstream_failed_jobs() raised %r" % (ex,))
    if not aborted_flag and ev["h_out"] is not None:
        # C13 on the report the python runner reads: an executed Ephemeral all of whose direct downstreams were executed
        # successfully or validly skipped has been offered for cleanup by the time the evaluation has ended
        try:
            upf_now = set(e.list_upstream_failed_jobs())
            offered_cleanup.update(e.jobs_ready_for_cleanup())
            downs2 = {}
            for d, u in ev["edges"]:
                downs2.setdefault(u, set()).add(d)
            for j in sorted(succeeded_jobs):
                if kinds.get(j) != "Ephemeral" or j in failed_jobs or not downs2.get(j):
                    continue
                ok_downs = all((d in succeeded_jobs and d not in failed_jobs) or (d not in started_jobs and d not in upf_now and d not in failed_jobs) for d in downs2[j])
                if ok_downs and j not in offered_cleanup:
                    v(["C13"], "pybridge-cleanup-never-offered", "", "Ephemeral %s was executed and all its direct downstreams %r succeeded or were skipped, but jobs_ready_for_cleanup() through the extension never listed it" % (j, sorted(downs2[j])))
                    break
        except BaseException as ex:  # noqa: B902
            v(["C06"], "pybridge-call-error", "jobs_ready_for_cleanup:%s" % type(ex).__name__, "cleanup report raised %r" % (ex,))
    if ev["h_out"] is not None:
        try:
            got = e.new_history()
        except BaseException as ex:  # noqa: B902
            v(["C06"] + (["C10"] if "abort" in [t["op"] for t in ev["trace"]] else []), "pybridge-new-history-failed", type(ex).__name__, "new_history() through the extension raised %r" % (ex,))
            return viol, "stop"
        want = t_hist(ev["h_out"])
        if faulty and got != want and not raw:
            # after a failure / an abort the two processes may differ in whether a validated job had already been skipped
            # when the fault arrived (hash order, section 3.8). A skipped job re-records what it consumed - judged
            # unaltered, but possibly with another stamp - an aborted one keeps the old text. Compare such histories
            # without the stamps (mtime, size): that is all the production comparison looks at.
            def norm(h):
                o = {}
                for k, val in h.items():
                    if k.endswith("!!!"):
                        o[k] = val
                        continue
                    try:
                        d = json.loads(val)
                        o[k] = json.dumps({n: (x.get("hash") if isinstance(x, dict) else x) for n, x in d.items() if n != "//stamp"}, sort_keys=True)
                    except Exception:  # noqa: BLE001
                        o[k] = val
                return o
            got, want = norm(got), norm(want)
        if got != want:
            ks = sorted(set(got) ^ set(want))
            dv = sorted(k for k in set(got) & set(want) if got[k] != want[k])
            if faulty:
                # every call result and every query result was identical up to here, so this is not the two processes
                # having offered different jobs when the fault arrived: what is recorded after the interruption differs
                v(["C08", "C09", "C11", "C18"], "pybridge-history-differs", "after-interruption:" + ("keys" if ks else "values"), "after an evaluation with failures / an abort the history returned through the extension differs although every call and query result was identical: keys only on one side %r; differing values %r" % (ks[:6], [(k, got[k], want[k]) for k in dv[:3]]))
                return viol, "stop"
            v(["C11", "C18"], "pybridge-history-differs", "keys" if ks else "values", "history returned through the extension differs: keys only on one side %r; differing values %r" % (ks[:6], [(k, got[k], want[k]) for k in dv[:3]]))
            return viol, "stop"
        out.count("pybridge_histories_equal")
    if cb["false"] > 0:
        out.line("N", "C15", hash((seed, step)) & 0xFFFFFFFFFFFF)
    if "misuse" in [t["op"] for t in ev["trace"]]:
        out.line("N", "C20", hash((seed, step, "m")) & 0xFFFFFFFFFFFF)
    return viol, "ok"


def main():
    ext_dir, repo, inp, res = sys.argv[1:5]
    verbose = "-v" in sys.argv[5:]
    out = Out(res)
    try:
        ext, hc = load_modules(ext_dir, repo)
    except BaseException as ex:  # noqa: B902
        out.line("I", "cannot load the extension module / history_comparisons.py: %r" % (ex,))
        out.close()
        return 0
    tmp = tempfile.mkdtemp(prefix="ppgmon-pybridge-")
    cwd = os.getcwd()
    os.chdir(tmp)
    nevals = 0
    try:
        for line in open(inp):
            line = line.strip()
            if not line:
                continue
            chain = json.loads(line)
            stats = {"present": set()}
            KINDS.clear()
            # fresh directory per chain
            for n in os.listdir("."):
                os.remove(n)
            for ev in chain["evals"]:
                viol, how = replay_eval(ext, hc, chain, ev, out, verbose, stats)
                nevals += 1
                out.count("pybridge_evaluations")
                if ev["faulty"]:
                    out.count("pybridge_faulty_evaluations")
                for (p, rule, sig, detail) in viol:
                    out.line("V", p, rule, sig, chain["seed"], ev["step"], detail)
                    if verbose:
                        print("PYBRIDGE VIOLATION", p, rule, sig, detail[:500])
                if how != "ok":
                    break
    finally:
        os.chdir(cwd)
        shutil.rmtree(tmp, ignore_errors=True)
    out.line("E", nevals)
    out.close()
    return 0


if __name__ == "__main__":
    sys.exit(main())
