#!/usr/bin/env python3
"""Run a small part of the monitored workloads under Miri (undefined-behaviour interpreter).

The engine is safe Rust, but it sits on petgraph / std collections whose internals are not, and the harness
drives it through catch_unwind. This self-check interprets the regression scenarios and a few seeded chains
(all monitors on) with `cargo +nightly miri run`, one process per case, in parallel. It is part of the thorough
tier of C06 only: an "Undefined Behavior" report of the interpreter while the engine is used legally is reported
as a C06 violation (the process would be allowed to do anything, including abort); everything else that goes
wrong here (Miri missing, build failure, timeout) is *inconclusive for this self-check only* and never fails
the property's check.

usage: miri_selfcheck.py <harness dir> <seed> <out.json> [--max-procs N] [--timeout S]
"""
import json
import os
import re
import subprocess
import sys
import time
from concurrent.futures import ThreadPoolExecutor

SCENARIOS = None  # read from scenarios.rs


def scenario_names(harness):
    src = open(os.path.join(harness, "src", "scenarios.rs")).read()
    return re.findall(r'name: "([^"]+)"', src)


def main():
    harness, seed, out = sys.argv[1], int(sys.argv[2]), sys.argv[3]
    max_procs, timeout = 16, 1200
    a = sys.argv[4:]
    while a:
        x = a.pop(0)
        if x == "--max-procs":
            max_procs = int(a.pop(0))
        elif x == "--timeout":
            timeout = int(a.pop(0))
    env = dict(os.environ)
    env["CARGO_NET_OFFLINE"] = "true"
    env["CARGO_TARGET_DIR"] = os.path.join(harness, "target", "miri")
    env.setdefault("MIRIFLAGS", "-Zmiri-disable-isolation")
    env["PPGMON_SCHEDULES"] = "2"  # two schedules per regression scenario instead of twelve
    res = {"tool": "cargo +nightly miri run", "cases": [], "evaluations": 0, "ub_reports": [], "inconclusive": [], "wall_s": 0}
    t0 = time.time()
    # build once (also tells us whether Miri is usable at all)
    b = subprocess.run(["cargo", "+nightly", "miri", "run", "--offline", "--", "help"], cwd=harness, env=env, stdout=subprocess.PIPE, stderr=subprocess.STDOUT, text=True, timeout=1800)
    if "usage: ppgmon" not in b.stdout:
        res["inconclusive"].append("Miri build/run of the harness failed: " + b.stdout[-600:])
        json.dump(res, open(out, "w"), indent=1)
        return 0
    cases = [["one", "scenario", n] for n in scenario_names(harness)]
    k = 0
    for conv, fam, maxn, flags in [("plain", "random", "5", "-"), ("prod", "rename", "4", "-"), ("stamped", "validatedeph", "4", "inject"), ("plain", "latefail", "4", "-"),
                                    ("prod", "kindflip", "5", "-"), ("plain", "abortoffered", "5", "-"), ("prod", "multipart", "4", "-"), ("plain", "random", "5", "misuse")]:
        for i in range(2):
            cases.append(["one", "chain", conv, fam, maxn, str(seed * 1000 + 17 * k + i), flags])
            k += 1

    def run(args):
        t1 = time.time()
        try:
            r = subprocess.run(["cargo", "+nightly", "miri", "run", "--offline", "--"] + args, cwd=harness, env=env, stdout=subprocess.PIPE, stderr=subprocess.PIPE, text=True, timeout=timeout)
        except subprocess.TimeoutExpired:
            return args, None, "timeout", 0, time.time() - t1
        m = re.search(r"^evaluations (\d+)", r.stdout, re.M)
        evals = int(m.group(1)) if m else 0
        ub = "Undefined Behavior" in r.stderr or "error: unsupported operation" in r.stderr and False
        fired = [l for l in r.stdout.splitlines() if l.startswith("VIOLATED ")]
        return args, r.returncode, ("UB:" + r.stderr[-1500:]) if ub else ("monitor:" + fired[0][:300] if fired else ("ok" if r.returncode == 0 else "exit %s: %s" % (r.returncode, r.stderr[-400:]))), evals, time.time() - t1

    with ThreadPoolExecutor(max_workers=max_procs) as ex:
        for args, rc, what, evals, dt in ex.map(run, cases):
            res["cases"].append({"args": args, "result": what[:200], "evaluations": evals, "s": round(dt, 1)})
            res["evaluations"] += evals
            if what.startswith("UB:"):
                res["ub_reports"].append({"args": args, "report": what[3:]})
            elif what == "timeout" or what.startswith("exit "):
                res["inconclusive"].append("%s: %s" % (" ".join(args), what[:300]))
            elif what.startswith("monitor:"):
                # the same monitors run natively in every check; a hit here is reported, not decided here
                res["inconclusive"].append("%s: a monitor fired under Miri: %s" % (" ".join(args), what[8:]))
    res["wall_s"] = round(time.time() - t0, 1)
    json.dump(res, open(out, "w"), indent=1)
    return 0


if __name__ == "__main__":
    sys.exit(main())
