#!/bin/bash
# usage: seed_eval.sh <dir with patch.diff demo.diff meta.json> <worktree> <PROP> [more props...]
# 1. confirms in the scratch worktree: demo alone passes; patch+demo: originals pass, demo fails; 2. runs the checks against the patch applied to /repo
D=$1; WT=$2; shift 2
cd $WT || exit 9
git checkout -q -- . ; git clean -fdq -e target
git apply $D/demo.diff || { echo "demo does not apply"; exit 9; }
R1=$(cargo test --offline 2>&1 | grep -E "^test result:" | head -1)
git apply $D/patch.diff || { echo "patch does not apply"; git checkout -q -- .; exit 9; }
R2=$(cargo test --offline 2>&1 | grep -E "^test result:|^test .* FAILED" | head -8 | tr '\n' ' ')
git checkout -q -- . ; git clean -fdq -e target
git apply $D/patch.diff
R3=$(cargo test --offline 2>&1 | grep -E "^test result:" | head -1)
git checkout -q -- . ; git clean -fdq -e target
echo "demo only : $R1"
echo "patch+demo: $R2"
echo "patch only: $R3"
cd /verif && ./tools/try_patch.sh $D/patch.diff "$@"
