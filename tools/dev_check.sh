#!/bin/bash
# run checks against a scratch harness copy (/tmp/hdbg) that points at a repository snapshot, while /repo itself is busy
# usage: dev_check.sh <repo-path> <PROP>...
R=$1; shift
mkdir -p /tmp/hdbg && rsync -a --delete --exclude target /verif/harness/src /verif/harness/Cargo.toml /verif/harness/Cargo.lock /verif/harness/.cargo /tmp/hdbg/ && sed -i "s#path = \"/repo\"#path = \"$R\"#" /tmp/hdbg/Cargo.toml
for p in "$@"; do VERIF_REPO_DIR=$R VERIF_HARNESS_DIR=/tmp/hdbg VERIF_OUT_DIR=/tmp/hdbg_out VERIF_EVIDENCE_DIR=/tmp/hdbg_evidence /verif/check $p --tier ${TIER:-quick} | tail -${LINES_OUT:-3}; done
