#!/bin/bash
# usage: rebase_patch.sh <patch> <base-commit> <out-patch>   - re-express a patch made against <base-commit> against /repo's HEAD
set -e
P=$1; BASE=$2; OUT=$3
rm -rf /tmp/wt_rebase; git -C /repo worktree prune
git -C /repo worktree add -q --detach /tmp/wt_rebase $BASE
cd /tmp/wt_rebase
git apply $P
git -c user.name=x -c user.email=x@x commit -qam seeded
C=$(git rev-parse HEAD)
git checkout -q --detach $(git -C /repo rev-parse HEAD)
if git -c user.name=x -c user.email=x@x cherry-pick $C >/dev/null 2>&1; then git diff HEAD^ HEAD > $OUT; echo "rebased ok -> $OUT"; else echo "CONFLICT"; git cherry-pick --abort; fi
cd /; git -C /repo worktree remove --force /tmp/wt_rebase
