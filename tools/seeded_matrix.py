#!/usr/bin/env python3
"""Confirm every seeded change under /verif/seeded and run the property's check against it.

For each /verif/seeded/<id>/ (patch.diff, demo.diff, meta.agent.json):
  1. in a scratch worktree of /repo's HEAD (outside /repo and /verif, removed afterwards):
     demo only -> everything passes; patch + demo -> the 74 original tests pass, demo tests fail;
     patch only -> 74 pass
  2. git -C /repo apply patch.diff ; ./check <property> --tier quick ; git -C /repo checkout -- .
  3. write meta.json and print a markdown table
usage: seeded_matrix.py [--only ID[,ID...]] [--no-confirm] [--tier quick|thorough]
"""
import json
import os
import re
import subprocess
import sys

# MX_VERIF / MX_REPO: run against snapshots (vp run --with-repo) so that editing /verif and /repo meanwhile does not
# disturb the matrix, and the matrix does not block them. The harness' Cargo.toml of the snapshot must point at MX_REPO
# (tools/matrix_in_snapshot.sh does that).
VERIF = os.environ.get("MX_VERIF", "/verif")
REPO = os.environ.get("MX_REPO", "/repo")
WT = "/tmp/wt_seed_confirm_%d" % os.getpid()


def sh(cmd, cwd=None, timeout=3600):
    return subprocess.run(cmd, shell=True, cwd=cwd, stdout=subprocess.PIPE, stderr=subprocess.STDOUT, text=True, timeout=timeout)


def cargo_test(cwd):
    r = sh("cargo test --offline 2>&1", cwd=cwd)
    m = re.search(r"test result: (\w+)\. (\d+) passed; (\d+) failed", r.stdout)
    failed = re.findall(r"^test (\S+) \.\.\. FAILED", r.stdout, re.M)
    if not m:
        return None, None, failed, r.stdout[-500:]
    return int(m.group(2)), int(m.group(3)), failed, ""


def main():
    only = None
    confirm = True
    tier = "quick"
    a = sys.argv[1:]
    while a:
        x = a.pop(0)
        if x == "--only":
            only = set(a.pop(0).split(","))
        elif x == "--no-confirm":
            confirm = False
        elif x == "--tier":
            tier = a.pop(0)
    ids = sorted(d for d in os.listdir(os.path.join(VERIF, "seeded")) if os.path.isdir(os.path.join(VERIF, "seeded", d)))
    if only:
        ids = [i for i in ids if i in only]
    if sh("git status --porcelain --untracked-files=no", cwd=REPO).stdout.strip():
        print("%s is not clean" % REPO)
        sys.exit(9)
    head = sh("git rev-parse --short HEAD", cwd=REPO).stdout.strip()
    if confirm:
        sh("git worktree prune", cwd=REPO)
        sh("rm -rf %s" % WT)
        sh("git worktree add -q --detach %s HEAD" % WT, cwd=REPO)
    rows = []
    try:
        for sid in ids:
            d = os.path.join(VERIF, "seeded", sid)
            prop = sid.split("-")[0]
            if not os.path.exists(os.path.join(d, "meta.agent.json")) or not os.path.exists(os.path.join(d, "patch.diff")):
                print("skipping %s: incomplete" % sid, flush=True)
                continue
            agent = json.load(open(os.path.join(d, "meta.agent.json")))
            meta = {
                "id": sid,
                "property": prop,
                "summary": agent.get("summary", ""),
                "needs_to_manifest": agent.get("needs_to_manifest", ""),
                "demo_tests": agent.get("demo_tests", []),
                "origin": "written by an independent sub-agent that saw only the property text and a scratch worktree of /repo (nothing from /verif); patch re-expressed against /repo HEAD %s where later fix commits touched the same lines" % head,
                "repo_head": head,
            }
            if os.path.exists(os.path.join(d, "meta.json")):
                try:
                    old = json.load(open(os.path.join(d, "meta.json")))
                    if "confirmed" in old and not confirm:
                        meta["confirmed"] = old["confirmed"]
                except Exception:
                    pass
            if confirm and os.path.exists(os.path.join(d, "demo.py")):
                # binding-layer change: the demonstration is a python program driving the built extension module
                c = {}
                so = os.path.join(WT, "target", "release", "libpypipegraph2.so")

                def build_and_demo():
                    b = sh("cargo build --release --offline --lib 2>&1", cwd=WT)
                    if b.returncode != 0:
                        return None
                    r = sh("PPG2_WORKTREE=%s PPG2_SO=%s %s %s/demo.py %s 2>&1" % (WT, so, sys.executable, d, so), cwd=WT, timeout=600)
                    return r.returncode

                sh("git checkout -q -- . ; git clean -fdq -e target", cwd=WT)
                c["demo_without_patch_exit"] = build_and_demo()
                sh("git apply %s/patch.diff" % d, cwd=WT)
                c["demo_with_patch_exit"] = build_and_demo()
                p3, f3, _, _ = cargo_test(WT)
                c["patch_only"] = {"passed": p3, "failed": f3}
                sh("git checkout -q -- . ; git clean -fdq -e target", cwd=WT)
                c["ok"] = bool(c["demo_without_patch_exit"] == 0 and c["demo_with_patch_exit"] not in (0, None) and p3 == 74 and f3 == 0)
                meta["confirmed"] = c
            elif confirm:
                c = {}
                sh("git checkout -q -- . ; git clean -fdq -e target", cwd=WT)
                sh("git apply %s/demo.diff" % d, cwd=WT)
                p, f, failed, _ = cargo_test(WT)
                c["demo_only"] = {"passed": p, "failed": f}
                sh("git apply %s/patch.diff" % d, cwd=WT)
                p2, f2, failed2, _ = cargo_test(WT)
                c["patch_and_demo"] = {"passed": p2, "failed": f2, "failing_tests": failed2}
                sh("git checkout -q -- . ; git clean -fdq -e target", cwd=WT)
                sh("git apply %s/patch.diff" % d, cwd=WT)
                p3, f3, _, _ = cargo_test(WT)
                c["patch_only"] = {"passed": p3, "failed": f3}
                sh("git checkout -q -- . ; git clean -fdq -e target", cwd=WT)
                c["ok"] = bool(f == 0 and p3 == 74 and f3 == 0 and f2 and f2 > 0 and p2 == 74 + (p - 74) - f2)
                meta["confirmed"] = c
            # run the check against the patch applied to /repo
            r = sh("git apply %s/patch.diff" % d, cwd=REPO)
            if r.returncode != 0:
                meta["check"] = {"error": "patch does not apply: " + r.stdout[-300:]}
            else:
                try:
                    env_seed = os.environ.get("VERIF_SEED", "1")
                    r = sh("VERIF_REPO_DIR=%s VERIF_SEED=%s ./check %s --tier %s" % (REPO, env_seed, prop, tier), cwd=VERIF)
                    lines = r.stdout.splitlines()
                    viol = [l for l in lines if l.startswith("VIOLATION")]
                    rules = [l.strip() for l in lines if l.strip().startswith("rule:")]
                    meta["check"] = {
                        "command": "git -C /repo apply seeded/%s/patch.diff; VERIF_SEED=%s ./check %s --tier %s; git -C /repo checkout -- ." % (sid, env_seed, prop, tier),
                        "exit": r.returncode,
                        "detected": r.returncode == 1 and bool(viol),
                        "rules_fired": rules[:4],
                        "last_line": lines[-1] if lines else "",
                    }
                finally:
                    sh("git checkout -- .", cwd=REPO)
            json.dump(meta, open(os.path.join(d, "meta.json"), "w"), indent=1)
            conf = meta.get("confirmed", {}).get("ok")
            det = meta["check"].get("detected")
            rule = (meta["check"].get("rules_fired") or ["-"])[0].replace("rule: ", "")[:90]
            rows.append("| %s | %s | %s | %s | `%s` |" % (sid, (meta["summary"] or "")[:110].replace("|", "/").replace("\n", " "), "yes" if conf else ("?" if conf is None else "NO"), "caught" if det else "MISSED (exit %s)" % meta["check"].get("exit"), rule.replace("|", "/")))
            print(rows[-1], flush=True)
    finally:
        sh("git checkout -- .", cwd=REPO)
        if confirm:
            sh("git worktree remove --force %s" % WT, cwd=REPO)
            sh("rm -rf %s" % WT)
    # the matrix is always regenerated from every meta.json present (so --only merges into it)
    allrows = []
    for sid in sorted(d for d in os.listdir(os.path.join(VERIF, "seeded")) if os.path.isdir(os.path.join(VERIF, "seeded", d))):
        mp = os.path.join(VERIF, "seeded", sid, "meta.json")
        if not os.path.exists(mp):
            allrows.append("| %s | (not yet evaluated) | ? | ? | `-` |" % sid)
            continue
        meta = json.load(open(mp))
        conf = meta.get("confirmed", {}).get("ok")
        chk = meta.get("check", {})
        det = chk.get("detected")
        rule = (chk.get("rules_fired") or ["-"])[0].replace("rule: ", "")[:90]
        also = ", ".join(meta.get("also_caught_by", []))
        extra_path = os.path.join(VERIF, "seeded", sid, "note.json")
        if os.path.exists(extra_path):
            # hand-recorded additions that a re-run of this tool must not lose (e.g. "caught by the thorough tier only")
            note = json.load(open(extra_path))
            also = (also + "; " if also else "") + note.get("note", "")
        allrows.append("| %s | %s | %s | %s | `%s` |%s" % (sid, (meta.get("summary") or "")[:110].replace("|", "/").replace("\n", " "), "yes" if conf else ("?" if conf is None else "NO"), "caught" if det else "MISSED (exit %s)" % chk.get("exit"), rule.replace("|", "/"), (" " + also) if also else ""))
    with open(os.path.join(VERIF, "seeded", "MATRIX.md"), "w") as f:
        f.write("| seeded change | what was changed | confirmed (compiles, 74 tests pass, demo fails only with it) | quick check of its property | first rule that fired |\n|---|---|---|---|---|\n")
        f.write("\n".join(allrows) + "\n")


if __name__ == "__main__":
    main()
