#!/bin/bash
# usage: silence.sh <tier> <seed>...   - runs every check at the given seeds, prints everything that is not "held"
TIER=$1; shift
cd "$(dirname "$0")/.." || exit 9
# inside `vp run --with-repo` use the repository snapshot, so that patches tried on /repo meanwhile do not disturb this run
if [ -n "${VP_RUN_REPO:-}" ] && [ "$(pwd)" != "/verif" ]; then sed -i "s#path = \"/repo\"#path = \"$VP_RUN_REPO\"#" harness/Cargo.toml; export VERIF_REPO_DIR=$VP_RUN_REPO; echo "using repo snapshot $VP_RUN_REPO"; fi
for s in "$@"; do
  for p in C01 C02 C03 C04 C05 C06 C07 C08 C09 C10 C11 C12 C13 C14 C15 C16 C17 C18 C19 C20; do
    OUT=$(VERIF_SEED=$s ./check $p --tier $TIER 2>&1); rc=$?
    if [ $rc -ne 0 ]; then echo "seed=$s $p exit=$rc"; echo "$OUT" | head -12; else echo "seed=$s $p ok: $(echo "$OUT" | tail -1 | cut -c1-120)"; fi
  done
done
