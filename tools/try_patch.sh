#!/bin/bash
# usage: try_patch.sh <patch-file|-R:commit> <PROP> [<PROP>...]
# applies a patch to /repo's working tree, runs the quick checks of the given properties, undoes the patch.
set -u
P="$1"; shift
cd /repo || exit 9
if [ -n "$(git status --porcelain --untracked-files=no)" ]; then echo "repo not clean"; exit 9; fi
if [[ "$P" == -R:* ]]; then
  C="${P#-R:}"
  git diff "$C^" "$C" | git apply -R || { echo "cannot reverse $C"; git checkout -- .; exit 9; }
else
  git apply "$P" || { echo "cannot apply $P"; git checkout -- .; exit 9; }
fi
T=$(cargo test --offline 2>&1 | grep -E "test result: .* passed" | head -1)
echo "tests: $T"
cd /verif
for prop in "$@"; do
  OUT=$(VERIF_SEED=${VERIF_SEED:-1} ./check "$prop" --tier ${TIER:-quick} 2>&1)
  rc=$?
  echo "$prop exit=$rc :: $(echo "$OUT" | grep -E "^VIOLATION|^INCONCLUSIVE|held on|rule:" | head -3 | tr '\n' ' ' | cut -c1-400)"
done
git -C /repo checkout -- .
