#!/bin/bash
# usage (inside `vp run --with-repo -- ./tools/matrix_in_snapshot.sh [seeded_matrix.py arguments]`):
# runs tools/seeded_matrix.py against the snapshots of /verif and /repo, so that neither blocks the other.
# Results (seeded/<id>/meta.json, seeded/MATRIX.md) are written into the snapshot; copy them back afterwards.
cd "$(dirname "$0")/.." || exit 9
if [ -z "${VP_RUN_REPO:-}" ]; then echo "VP_RUN_REPO not set (use vp run --with-repo)"; exit 9; fi
sed -i "s#path = \"/repo\"#path = \"$VP_RUN_REPO\"#" harness/Cargo.toml
export MX_VERIF="$(pwd)" MX_REPO="$VP_RUN_REPO"
exec python3 tools/seeded_matrix.py "$@"
